"""S11 — orbits: the same map presented in different order / direction / decoration / position / scale."""
from __future__ import annotations

import multiprocessing as mp
from collections import Counter
from fractions import Fraction as F

from harness.common import Disagreement, StreamResult, area_rows, budget, import_fractopo, lines, rng_for
from harness.mapgen import valid_maps
from harness.valgen import T, gadgets, place

F8_KEY = "F8:absolute-tolerances-do-not-scale"
F12_KEY = "F12:user-column-named-like-a-package-column"
PARAM_DIM = {  # exponent of k under scaling by k
    "Fracture Intensity P21": -1, "Fracture Intensity B21": -1, "Areal Frequency P20": -2, "Areal Frequency B20": -2, "Connection Frequency": -2,
    "Trace Mean Length": 1, "Branch Mean Length": 1, "Trace Min Length": 1, "Trace Max Length": 1, "Branch Min Length": 1, "Branch Max Length": 1, "Area": 2,
    "Dimensionless Intensity P22": 0, "Dimensionless Intensity B22": 0, "Connections per Trace": 0, "Connections per Branch": 0,
    "Number of Traces": 0, "Number of Branches": 0, "Number of Traces (Real)": 0, "Number of Branches (Real)": 0,
}


def transform_pt(p, g):
    x, y = p
    x, y = x * g["k"], y * g["k"]
    if g["swap"]:
        x, y = y, x
    if g["fx"]:
        x = -x
    if g["fy"]:
        y = -y
    return (x + g["dx"], y + g["dy"])


def random_g(rng, what):
    g = {"k": 1.0, "swap": False, "fx": False, "fy": False, "dx": 0.0, "dy": 0.0, "perm": None, "rev": None, "decor": None}
    if what == "order":
        g["perm"], g["rev"] = True, True
    elif what == "decor":
        g["decor"] = rng.choice(["z", "crs", "columns", "index", "all"])
    elif what == "sym":
        g["swap"], g["fx"], g["fy"] = rng.random() < 0.5, rng.random() < 0.5, rng.random() < 0.5
    elif what == "translate":
        g["dx"], g["dy"] = rng.choice([2.0**20, -2.0**21, 2.0**10, 3.0 * 2**18]), rng.choice([2.0**20, -2.0**21, 7.0 * 2**16])
    elif what == "scale":
        g["k"] = rng.choice([2.0**-4, 2.0**-2, 2.0**3, 2.0**6])
    return g


def network_worker(arg):
    traces, area, t, g, seed = arg
    import random

    import_fractopo()
    import geopandas as gpd
    from shapely.geometry import LineString, Polygon

    from fractopo import Network

    rng = random.Random(seed)
    ls = [[transform_pt(p, g) for p in l] for l in traces]
    if g["rev"]:
        ls = [l[::-1] if rng.random() < 0.5 else l for l in ls]
    order = list(range(len(ls)))
    if g["perm"]:
        rng.shuffle(order)
    ls = [ls[i] for i in order]
    geoms = [LineString(l) for l in ls]
    data, index, crs = {}, None, None
    if g["decor"] in ("z", "all"):
        geoms = [LineString([(x, y, 3.5 + i) for i, (x, y) in enumerate(l)]) for l in ls]
    if g["decor"] in ("columns", "all"):
        data = {"my length": [1.0] * len(ls), "Azimuth_": [7.0] * len(ls), "note": ["x"] * len(ls)}
    if g["decor"] in ("index", "all"):
        index = [f"r{i}" for i in range(len(ls))]
    if g["decor"] in ("crs", "all"):
        crs = "EPSG:3067"
    if g["decor"] == "pkgcolumns":
        data = {"length non-weighted": [1.0] * len(ls), "azimuth": [10.0] * len(ls)}
    tr = gpd.GeoDataFrame(data, geometry=geoms, index=index, crs=crs)
    ar = gpd.GeoDataFrame(geometry=[Polygon([transform_pt(p, g) for p in area])], crs=crs)
    try:
        net = Network(trace_gdf=tr, area_gdf=ar, name="o", determine_branches_nodes=True, snap_threshold=t * g["k"], truncate_traces=True, circular_target_area=False)
        return {"nodes": dict(net.node_counts), "branches": dict(net.branch_counts), "params": {k: (None if v != v else float(v)) for k, v in net.parameters.items()}}
    except Exception as e:
        return f"{type(e).__name__}: {str(e)[:140]}"


def validation_worker(arg):
    wkts, g, seed, t = arg
    import random

    import_fractopo()
    import geopandas as gpd
    from shapely import wkt
    from shapely.geometry import LineString, box
    from shapely.ops import transform as shp_transform

    from fractopo.tval.trace_validation import Validation

    rng = random.Random(seed)
    geoms = [wkt.loads(w) for w in wkts]
    geoms = [shp_transform(lambda x, y, z=None: transform_pt((x, y), g), gm) for gm in geoms]
    tags = list(range(len(geoms)))
    if g["rev"]:
        geoms = [LineString(list(gm.coords)[::-1]) if rng.random() < 0.5 else gm for gm in geoms]
    if g["perm"]:
        order = list(range(len(geoms)))
        rng.shuffle(order)
        geoms = [geoms[i] for i in order]
        tags = [tags[i] for i in order]
    area = gpd.GeoDataFrame(geometry=[shp_transform(lambda x, y, z=None: transform_pt((x, y), g), box(-1000, -1000, 1000, 1000)).envelope])
    try:
        out = Validation(gpd.GeoDataFrame({"tag": tags}, geometry=geoms), area, "o", True, SNAP_THRESHOLD=t * g["k"]).run_validation()
        return {int(tag): sorted(set(e) - {"SHARP TURNS"}) for tag, e in zip(out["tag"], out["VALIDATION_ERRORS"])}
    except Exception as e:
        return f"{type(e).__name__}: {str(e)[:140]}"


def s11_network_orbits(ctx):
    res = StreamResult("S11-network-orbits", rule="valid maps (Lean oracle) x {row permutation + per-trace reversal, decorations (Z, CRS, extra columns, string index), one of the "
                       "8 lattice symmetries, dyadic translation up to 2^21, power-of-two scaling with the threshold}: node / branch counts identical, parameters "
                       "scaled by k^dim; non-trivial = map with an X or Y node")
    rng = rng_for(ctx.seed, "S11n")
    import_fractopo()
    t = 0.01
    maps, _ = valid_maps(ctx, rng, budget(ctx.tier, 14, 250), F(t), area_kinds=("box", "concave"))
    whats = ["order", "decor", "sym", "translate", "scale"]
    args, meta = [], []
    ident = random_g(rng, "none")
    for traces, area, kind, ar in maps:
        fl = [[(float(x), float(y)) for x, y in l] for l in traces]
        ring = list(area.exterior.coords)
        args.append((fl, ring, t, ident, 0))
        meta.append((traces, area, ar, "identity", ident))
        for w in whats:
            g = random_g(rng, w)
            args.append((fl, ring, t, g, rng.randrange(10**6)))
            meta.append((traces, area, ar, w, g))
    with mp.get_context("fork").Pool(16, maxtasksperchild=16) as pool:
        outs = pool.map(network_worker, args, chunksize=2)
    base = None
    for (traces, area, ar, w, g), o in zip(meta, outs):
        if w == "identity":
            base = o
            continue
        res.evaluations += 1
        res.distribution[w] = res.distribution.get(w, 0) + 1
        if any(c in "XY" for _, c in ar.nodes):
            res.nontrivial += 1
        case = {"stream": "S11-network-orbits", "traces": lines(traces), "areas": area_rows([area]), "t": t, "transform": w, "g": g}
        if isinstance(o, str) or isinstance(base, str):
            res.disagreements.append(Disagreement("S11-network-orbits", case, str(base)[:200], str(o)[:200], True, "raised on a member of the orbit"))
            continue
        bad = []
        if o["nodes"] != base["nodes"] or o["branches"] != base["branches"]:
            bad.append(f"counts {o['nodes']} {o['branches']} vs {base['nodes']} {base['branches']}")
        k = g["k"]
        for name, dim in PARAM_DIM.items():
            a, b = base["params"].get(name), o["params"].get(name)
            if a is None or b is None:
                if a != b:
                    bad.append(f"{name}: {a} vs {b}")
                continue
            want = a * (k ** dim)
            if abs(b - want) > 1e-7 * max(1.0, abs(want)):
                bad.append(f"{name}: {b!r}, expected {want!r} (= {a!r} x k^{dim})")
        if bad:
            res.disagreements.append(Disagreement("S11-network-orbits", case, {"nodes": base["nodes"], "branches": base["branches"]}, bad[:5], True,
                                                  f"result changed under {w}: " + "; ".join(bad)[:300]))
    res.samples = [{"transforms": whats}]
    return res


def s11_validation_orbits(ctx):
    res = StreamResult("S11-validation-orbits", rule="planted-defect frames (crisp gadgets, every defect kind) x {row permutation + reversal, lattice symmetry, dyadic "
                       "translation, power-of-two scaling 2^-2..2^3 with the threshold}: every row's verdict moves with the row; non-trivial = frame with an error")
    rng = rng_for(ctx.seed, "S11v")
    G = gadgets()
    names = ["valid_x", "valid_y", "vnode", "multijunction", "stacked", "cuts_itself", "underlap", "overlap", "multicross", "valid_single", "double_overshoot",
             "double_overshoot", "overshoot_vnode", "overshoot_multijunction", "overshoot_multijunction", "vchain3", "vchain3", "vchain4"]
    whats = ["order", "sym", "translate", "scale"]
    args, meta = [], []
    ident = random_g(rng, "none")
    # frames in which a verdict could leak from one row to another through process state (the under/overlap validator keeps its label on the class)
    fixed = [["overlap", "underlap"], ["underlap", "overlap", "stacked"], ["overlap", "valid_y", "underlap", "vnode"], ["stacked", "underlap", "overlap"]]
    for k in range(budget(ctx.tier, 32, 400)):
        geoms = []
        for i, nm in enumerate(fixed[k] if k < len(fixed) else rng.sample(names, rng.randint(2, 4))):
            geoms += [place(g_, 64.0 * i, 0.0) for g_ in G[nm]]
        wk = [g_.wkt for g_ in geoms]
        args.append((wk, ident, 0, T))
        meta.append((wk, "identity", ident))
        for w in whats:
            g = random_g(rng, w)
            if w == "scale":
                g["k"] = rng.choice([0.25, 8.0, 2.0])
            args.append((wk, g, rng.randrange(10**6), T))
            meta.append((wk, w, g))
    with mp.get_context("fork").Pool(16, maxtasksperchild=16) as pool:
        outs = pool.map(validation_worker, args, chunksize=2)
    base = None
    for (wk, w, g), o in zip(meta, outs):
        if w == "identity":
            base = o
            continue
        res.evaluations += 1
        res.distribution[w] = res.distribution.get(w, 0) + 1
        if not isinstance(base, str) and any(base.values()):
            res.nontrivial += 1
        if o != base:
            case = {"stream": "S11-validation-orbits", "wkt": wk, "transform": w, "g": g}
            if w == "scale" and g["k"] < 0.01:
                case["finding_key"] = F8_KEY
            res.disagreements.append(Disagreement("S11-validation-orbits", case, base, o, True, f"validation verdicts do not move with their rows under {w}"))
    res.samples = [{"transforms": whats}]
    return res


STREAMS = [s11_network_orbits, s11_validation_orbits]


def replay(ctx, stream, case):
    if stream == "S11-validation-orbits":
        ident = {"k": 1.0, "swap": False, "fx": False, "fy": False, "dx": 0.0, "dy": 0.0, "perm": None, "rev": None, "decor": None}
        a = validation_worker((case["wkt"], ident, 0, T))
        b = validation_worker((case["wkt"], case["g"], 1, T))
        return None if a == b else Disagreement(stream, case, a, b, True, "verdicts differ across the orbit")
    from harness.common import parse_lines
    traces = [[(float(x), float(y)) for x, y in l] for l in parse_lines(case["traces"])]
    ring = [(float(x), float(y)) for x, y in parse_lines(case["areas"].split("#")[0].split("&")[0])[0]]
    ident = {"k": 1.0, "swap": False, "fx": False, "fy": False, "dx": 0.0, "dy": 0.0, "perm": None, "rev": None, "decor": None}
    a = network_worker((traces, ring, case["t"], ident, 0))
    b = network_worker((traces, ring, case["t"], case["g"], 1))
    if isinstance(a, str) or isinstance(b, str) or a["nodes"] != b["nodes"] or a["branches"] != b["branches"]:
        return Disagreement(stream, case, a, b, True, "counts differ across the orbit")
    return None


def replay_finding(ctx, k):
    import json

    from harness.common import VERIF

    c = json.loads((VERIF / k["witness"]).read_text())
    if k["id"] == "F8":
        ident = {"k": 1.0, "swap": False, "fx": False, "fy": False, "dx": 0.0, "dy": 0.0, "perm": None, "rev": None, "decor": None}
        a = validation_worker((c["wkt"], ident, 0, T))
        b = validation_worker((c["wkt"], dict(ident, k=c["k"]), 0, T))
        return a != b
    if k["id"] == "F12":
        ident = {"k": 1.0, "swap": False, "fx": False, "fy": False, "dx": 0.0, "dy": 0.0, "perm": None, "rev": None, "decor": None}
        a = network_worker((c["traces"], c["area"], 0.01, ident, 0))
        b = network_worker((c["traces"], c["area"], 0.01, dict(ident, decor="pkgcolumns"), 0))
        return isinstance(a, dict) and isinstance(b, dict) and a["params"] != b["params"]
    return None
