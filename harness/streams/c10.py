"""S10 — near-threshold features: reported inside the documented windows, silent clearly outside."""
from __future__ import annotations

import math
import multiprocessing as mp

from harness.common import Disagreement, StreamResult, area_rows, budget, import_fractopo, line, parse_resp, pt, rat, rng_for

M, A = 1.1, 1.5


def validate(arg):
    wkts, t, area_wkt = arg
    import_fractopo()
    import geopandas as gpd
    from shapely import wkt

    from fractopo.tval.trace_validation import Validation

    gdf = gpd.GeoDataFrame(geometry=[wkt.loads(w) for w in wkts])
    area = gpd.GeoDataFrame(geometry=[wkt.loads(area_wkt)])
    try:
        out = Validation(gdf, area, "w", True, SNAP_THRESHOLD=t).run_validation()
        return [list(e) for e in out["VALIDATION_ERRORS"].values]
    except Exception as e:
        return f"{type(e).__name__}: {str(e)[:120]}"


def rot(p, ang, off):
    c, s = math.cos(math.radians(ang)), math.sin(math.radians(ang))
    return (p[0] * c - p[1] * s + off[0], p[0] * s + p[1] * c + off[1])


def build_cases(rng, n, tier):
    from shapely.geometry import LineString, box

    cases = []
    angles = [0, 90, 180, 270, 45, 135, 10, 33, 77, 123, 200, 315] if tier == "quick" else list(range(0, 360, 5))
    for _ in range(n):
        t = rng.choice([0.01, 0.01, 0.001])
        kind = rng.choice(["under", "over", "area", "vnode", "stack"])
        rel = rng.choice([0.5, 0.9, "mid", 1.2, 2.0])
        ang = rng.choice(angles)
        off = rng.choice([(0.0, 0.0), (0.0, 0.0), (1000.0, -500.0), (5e5, 6.7e6)])
        pos = rng.choice([0.0, 2.5, -4.2, 4.9])  # position along the target incl. near its ends
        if kind == "stack":
            # a neighbour running alongside: separation s and alongside length L (stacking buffer 5.5 t, detection length 50 t)
            B, D = 5.0 * M * t, 50.0 * t
            variant = rng.choice(["inside", "far", "short"])
            if variant == "inside":
                sep, L = rng.choice([0.3, 0.6, 0.9]) * B, rng.choice([2.4, 4.0, 10.0]) * D
            elif variant == "far":
                sep, L = rng.choice([1.2, 2.0]) * B, rng.choice([2.4, 10.0]) * D
            else:
                sep, L = rng.choice([0.3, 0.9]) * B, rng.choice([0.3, 0.6]) * D
            spos = rng.choice([0.0, 1.0, -1.5])  # the neighbour runs alongside the target over its whole length
            geoms = [[(-5.0, 0.0), (5.0, 0.0)], [(spos - L / 2, sep), (spos + L / 2, sep)]]
            if rng.random() < 0.5:
                geoms[1] = geoms[1][::-1]
            area = [(-30.0, -30.0), (30.0, -30.0), (30.0, 30.0), (-30.0, 30.0), (-30.0, -30.0)]
            geoms = [[rot(p, ang, off) for p in gline] for gline in geoms]
            cases.append({"kind": kind, "rel": variant, "t": t, "angle": ang, "offset": off, "pos": pos, "geoms": geoms, "area": [rot(p, ang, off) for p in area],
                          "end": geoms[1][0], "target": geoms[0], "planted": 1})
            continue
        if kind in ("under", "over"):
            lower, upper = t, t * M
        elif kind == "area":
            lower, upper = t, t * M * A
        else:
            lower, upper = 0.0, t * M
        if rel == "mid":
            g = (lower + upper) / 2
        elif rel in (0.5, 0.9):
            g = rel * lower if lower > 0 else rel * upper * 0.5
        else:
            g = rel * upper
        tgt = [(-5.0, 0.0), (5.0, 0.0)]
        if kind == "under":
            feat = [(pos, 3.0), (pos, g)]
            end = feat[1]
        elif kind == "over":
            feat = [(pos, 3.0), (pos, -g)]
            end = feat[1]
        elif kind == "vnode":
            # two trace ends at distance g, not collinear
            feat = [(5.0 + g, 0.0), (7.0, 2.0)]
            end = feat[0]
        else:
            feat = None
        if kind == "area":
            # a trace ending at distance g inside the area boundary x = 20 (local frame), area is a big box
            geoms = [[(10.0, pos), (20.0 - g, pos)]]
            end = geoms[0][1]
            area = [(-30.0, -30.0), (20.0, -30.0), (20.0, 30.0), (-30.0, 30.0), (-30.0, -30.0)]
            tgt_used = geoms[0]
        else:
            geoms = [tgt, feat]
            # the other end of the planted trace: free, or properly snapped to a third trace (an ordinary Y-node);
            # both digitising directions
            if kind in ("under", "over") and rng.random() < 0.5:
                geoms = [tgt, [(pos - 2.0, 3.0), (pos + 2.0, 3.0)], feat]
            if rng.random() < 0.5:
                geoms[-1] = geoms[-1][::-1]
            area = [(-30.0, -30.0), (30.0, -30.0), (30.0, 30.0), (-30.0, 30.0), (-30.0, -30.0)]
            tgt_used = tgt
        geoms = [[rot(p, ang, off) for p in gline] for gline in geoms]
        area_r = [rot(p, ang, off) for p in area]
        end_r = rot(end, ang, off)
        tgt_r = [rot(p, ang, off) for p in tgt_used]
        cases.append({"kind": kind, "rel": rel, "t": t, "angle": ang, "offset": off, "pos": pos, "geoms": geoms, "area": area_r, "end": end_r,
                      "target": tgt_r if kind != "area" else geoms[0], "planted": len(geoms) - 1})
    return cases


def s10_windows(ctx):
    from shapely.geometry import LineString, Polygon

    res = StreamResult("S10-windows", rule="one planted near-threshold feature (undershoot, overshoot, end near an end, end near the area boundary) at gaps 0.5 / 0.9 x "
                       "lower bound, mid-window, 1.2 / 2 x upper bound; orientations incl. axis-parallel; positions along the target incl. near its ends; offsets to "
                       "UTM scale; thresholds 0.01 (library default) and 0.001 (CLI default); expected verdict from the exact window specification; "
                       "non-trivial = feature inside its window")
    rng = rng_for(ctx.seed, "S10")
    cases = build_cases(rng, budget(ctx.tier, 260, 6000), ctx.tier)
    reqs = []
    for c in cases:
        reqs.append(f"feature t={rat(c['t'])} m={rat(M)} a={rat(A)} end={pt(c['end'])} target={line(c['target'] if c['kind'] != 'area' else [c['end'], c['end']])} "
                    f"areas={line(c['area'])}")
    resps = ctx.driver.parallel(reqs)
    args = [([LineString(g).wkt for g in c["geoms"]], c["t"], Polygon(c["area"]).wkt) for c in cases]
    with mp.get_context("fork").Pool(16, maxtasksperchild=16) as pool:
        outs = pool.map(validate, args, chunksize=4)
    for c, resp, errs in zip(cases, resps, outs):
        res.evaluations += 1
        m = parse_resp(resp)
        case = {"stream": "S10-windows", **{k: c[k] for k in ("kind", "rel", "t", "angle", "offset", "pos", "geoms", "area", "end", "target", "planted")}}
        key = f"{c['kind']}_{c['rel']}"
        res.distribution[key] = res.distribution.get(key, 0) + 1
        res.distribution["axis_parallel"] = res.distribution.get("axis_parallel", 0) + int(c["angle"] % 90 == 0)
        if m.get("crisp") != "1" and c["kind"] != "stack":
            res.skipped["non_crisp"] = res.skipped.get("non_crisp", 0) + 1
            continue
        if isinstance(errs, str):
            res.disagreements.append(Disagreement("S10-windows", case, resp, errs, True, "validation raised"))
            continue
        got = errs[c["planted"]]
        if c["kind"] in ("under", "over"):
            inside = m["under"] == "1"
            want = "UNDERLAPPING SNAP" if c["kind"] == "under" else "OVERLAPPING SNAP"
            ok = (want in got) if inside else ("UNDERLAPPING SNAP" not in got and "OVERLAPPING SNAP" not in got)
            if c["kind"] == "under" and not inside and c["rel"] in (0.5, 0.9, 1.2, 2.0):
                ok = ok and (got == [] or c["rel"] in (0.5, 0.9) and got == [])  # clearly outside: nothing at all for an undershoot
        elif c["kind"] == "area":
            inside = m["area"] == "1"
            ok = ("TRACE UNDERLAPS TARGET AREA" in got) == inside
        elif c["kind"] == "stack":
            inside = c["rel"] == "inside"
            ok = all(("STACKED TRACES" in e) == inside for e in errs)
        else:
            inside = c["rel"] in (0.5, 0.9, "mid")
            ok = ("V NODE" in got) == inside
        if inside:
            res.nontrivial += 1
        if not ok:
            res.disagreements.append(Disagreement("S10-windows", case, {"inside_window": inside, "model": resp}, got, True,
                                                  f"{c['kind']} feature at {c['rel']} x bound: reported strings {got} do not match the documented window"))
    res.samples = [{k: cases[0][k] for k in ("kind", "rel", "t", "angle", "geoms")}]
    return res


def s10_stacking(ctx):
    """deterministic sweep of the stacking window: alongside length x orientation x start position x map offset x threshold"""
    from shapely.geometry import LineString, Polygon

    res = StreamResult("S10-stacking", rule="a trace planted alongside a longer one at 0.5 x the stacking buffer for 1.3 / 1.6 / 1.9 x the overlap-detection length, or at 0.95 x the buffer (the outer "
                       "edge of the window, where the candidate search must still reach) for 2.6 x (inside the window: must be STACKED TRACES) or 0.6 x (clearly below: must not), or for 1.6 x at 1.3 x the buffer (clearly outside: must not); 8 orientations "
                       "incl. axis-parallel and 45 degrees x 3 start positions x offsets 0 / 1e3 / 1e7 x thresholds 0.01 / 0.001; the quick tier takes a seeded third; "
                       "non-trivial = placement inside the window")
    rng = rng_for(ctx.seed, "S10k")
    cases = []
    for t in (0.01, 0.001):
        D, B = 50.0 * t, 5.0 * M * t
        for offset in (0.0, 1.0e3, 1.0e7):
            for ang in (0.0, 17.0, 30.0, 45.0, 61.0, 90.0, 118.0, 163.0):
                for along, sepk, inside in ((1.3, 0.5, True), (1.6, 0.5, True), (1.9, 0.5, True), (0.6, 0.5, False), (1.6, 1.3, False), (2.6, 0.95, True)):
                    for shift in (0.37, 1.21, 2.83):
                        if ctx.tier == "quick" and rng.random() > 0.34:
                            continue
                        ux, uy = math.cos(math.radians(ang)), math.sin(math.radians(ang))
                        nx, ny = -uy, ux
                        P = lambda a, n: (offset + a * ux + n * nx, offset + a * uy + n * ny)  # noqa: E731
                        target = [P(shift * D, 0.0), P((shift + along) * D, 0.0)]
                        planted = [P(-1.0 * D, sepk * B), P(6.0 * D, sepk * B)]
                        half = 20 * D
                        area = [(offset - half, offset - half), (offset - half, offset + half), (offset + half, offset + half), (offset + half, offset - half), (offset - half, offset - half)]
                        cases.append({"stream": "S10-stacking", "t": t, "offset": offset, "angle": ang, "along_over_D": along, "sep_over_B": sepk, "shift": shift, "inside": inside,
                                      "geoms": [target, planted], "area": area})
    args = [([LineString(g).wkt for g in c["geoms"]], c["t"], Polygon(c["area"]).wkt) for c in cases]
    with mp.get_context("fork").Pool(16, maxtasksperchild=32) as pool:
        outs = pool.map(validate, args, chunksize=4)
    for c, errs in zip(cases, outs):
        d = _judge_stacking(c, errs)
        res.evaluations += 1
        res.nontrivial += int(c["inside"])
        key = f"offset={c['offset']:g}_{'inside' if c['inside'] else 'outside'}"
        res.distribution[key] = res.distribution.get(key, 0) + 1
        if d is not None:
            res.disagreements.append(d)
    res.samples = [{k: cases[0][k] for k in ("t", "offset", "angle", "along_over_D", "geoms")}] if cases else []
    return res


F24_KEY = "F24:short-partner-of-a-stack-not-flagged"


def _judge_stacking(c, errs):
    if isinstance(errs, str):
        return Disagreement("S10-stacking", c, "completes", errs, True, "validation raised")
    if c["inside"] and "STACKED TRACES" in errs[1] and "STACKED TRACES" not in errs[0] and c["along_over_D"] + 2 * 5.0 * M / 50.0 < 2.0:
        # known finding F24: the SHORTER partner (shorter than two detection lengths minus the buffer ends) is flagged only when the
        # first cut of the other trace at its buffer boundary happens to round inwards; the longer partner is always flagged
        return Disagreement("S10-stacking", dict(c, finding_key=F24_KEY), "STACKED TRACES for both traces", errs, True,
                            f"the shorter partner ({c['along_over_D']} x the detection length) of a stacked pair is not reported (the longer one is)")
    # the short trace (row 0) runs alongside over its whole length: it must carry the verdict; the long one too when inside
    got = ["STACKED TRACES" in e for e in errs]
    if c["inside"] and not all(got):
        return Disagreement("S10-stacking", c, "STACKED TRACES for both traces", errs, True,
                            f"traces alongside within the stacking buffer for {c['along_over_D']} x the detection length are not reported (offset {c['offset']:g}, angle {c['angle']})")
    if not c["inside"] and any(got):
        return Disagreement("S10-stacking", c, "no STACKED TRACES", errs, True, "STACKED TRACES reported clearly outside the window")
    return None


def s10_sharp(ctx):
    """direction changes: a three-vertex trace with a turn of phi degrees between its segments (0 = straight)"""
    from shapely.geometry import LineString, Polygon

    res = StreamResult("S10-sharp", rule="three-vertex traces with a turn of 5..75 degrees or exactly 0 (straight interior vertex on 13 lattice directions) (clearly below every configured angle: SHARP TURNS must NOT be reported) or "
                       "105..175 degrees (beyond the configured 100 between consecutive segments: must be reported), segment length ratios 1/4..4, 12 orientations, "
                       "both digitising directions, offsets 0 / 1e4 / 1e7, default angles (135 / 100); non-trivial = turn beyond the configured angle")
    rng = rng_for(ctx.seed, "S10s")
    cases = []
    for _ in range(budget(ctx.tier, 150, 3000)):
        beyond = rng.random() < 0.5
        phi = rng.uniform(105.0, 175.0) if beyond else rng.uniform(5.0, 75.0)
        if rng.random() < 0.5:
            phi = -phi
        L1, L2 = rng.choice([1.0, 2.0, 4.0, 8.0]), rng.choice([1.0, 2.0, 4.0, 8.0])
        ang = rng.choice([0, 30, 45, 90, 135, 180, 200, 270, 300, 10, 77, 333])
        off = rng.choice([(0.0, 0.0), (1e4, -2e4), (1e7, 1e7)])
        pts = [(0.0, 0.0), (L1, 0.0), (L1 + L2 * math.cos(math.radians(phi)), L2 * math.sin(math.radians(phi)))]
        pts = [rot(p, ang, off) for p in pts]
        if not beyond and rng.random() < 0.3:
            # a STRAIGHT interior vertex, exactly on the line between its neighbours (lattice direction): the dot product of the two unit vectors is 1 up to rounding, often above
            a_, b_ = rng.choice([(3, 1), (1, 7), (5, -2), (-4, 3), (2, 9), (-7, -1), (6, 5), (1, -3), (9, 4), (-2, 5), (7, 7), (0, 3), (4, 0)])
            phi = 0.0
            pts = [(off[0], off[1]), (off[0] + a_ * L1, off[1] + b_ * L1), (off[0] + a_ * (L1 + L2), off[1] + b_ * (L1 + L2))]
        if rng.random() < 0.5:
            pts = pts[::-1]
        h = 40.0
        area = [rot(p, 0, off) for p in [(-h, -h), (h, -h), (h, h), (-h, h), (-h, -h)]]
        cases.append({"stream": "S10-sharp", "phi": phi, "beyond": beyond, "geoms": [pts], "area": area, "t": 0.01})
    args = [([LineString(g).wkt for g in c["geoms"]], c["t"], Polygon(c["area"]).wkt) for c in cases]
    with mp.get_context("fork").Pool(16, maxtasksperchild=32) as pool:
        outs = pool.map(validate, args, chunksize=8)
    for c, errs in zip(cases, outs):
        res.evaluations += 1
        res.nontrivial += int(c["beyond"])
        d = _judge_sharp(c, errs)
        if d is not None:
            res.disagreements.append(d)
    res.samples = [{k: cases[0][k] for k in ("phi", "geoms")}]
    return res


def _judge_sharp(c, errs):
    if isinstance(errs, str):
        return Disagreement("S10-sharp", c, "completes", errs, True, "validation raised")
    got = "SHARP TURNS" in errs[0]
    if got != c["beyond"]:
        return Disagreement("S10-sharp", c, "SHARP TURNS" if c["beyond"] else "no SHARP TURNS", errs[0], True,
                            f"a turn of {abs(c['phi']):.1f} degrees is {'not ' if c['beyond'] else ''}reported")
    return None


def s10_generated(ctx):
    """translator validation: the REGENERATED validation_method of UnderlappingSnapValidator and TargetAreaSnapValidator (compiled into
    gen_c10, exact squared distances) vs the real methods, with the under/overlap decision and the candidate test scripted on both sides"""
    import_fractopo()
    import math

    import geopandas as gpd
    from shapely.geometry import LineString, Point, box

    import fractopo.tval.trace_validators as tv
    from harness.common import area_rows, enc, line as wline, lines as wlines, rng_for

    res = StreamResult("S10-generated", rule="regenerated UnderlappingSnapValidator.validation_method (both loops, well-snapped skip, window, first hit, threaded class "
                       "attribute, ValueError branch) and TargetAreaSnapValidator.validation_method (Lean, compiled) vs the real methods: a trace with ends 0.5 / 1.05 / 1.2 / 3 x snap "
                       "from 1..3 candidates (also collinear overlapping ones), is_underlapping scripted True / False / None per candidate; ends 0.5 / 1.0 / 1.2 / 1.6 / 3 x snap "
                       "from the boundary of 1..2 area rows with the candidate test scripted per row; regenerated is_underlapping / split_to_determine_triangle_errors / "
                       "determine_middle_in_triangle vs the real functions with a scripted `split` (failure, 1..5 real pieces at 0..40 x the error distance, lengths around the triangle "
                       "window, touching or far apart); non-trivial = the validator fails or raises / the decision is not the default")
    if ctx.gen is None:
        res.note = "gen_c10 not built (a generated module is broken): skipped"
        res.skipped["generated_driver_not_built"] = 1
        return res
    rng = rng_for(ctx.seed, "S10g")
    reqs, cases = [], []
    for _ in range(budget(ctx.tier, 300, 5000)):
        t = rng.choice([0.01, 0.1])
        m = 1.1
        # the validated trace: from (0, 0) upwards; candidates are horizontal lines near its two ends
        top = float(rng.randint(3, 8))
        geom = [(0.0, 0.0), (0.0, top)]
        cands, script = [], []
        for _ in range(rng.randint(1, 3)):
            g = rng.choice([0.5, 1.05, 1.2, 3.0, 0.0]) * t
            where = rng.choice(["bottom", "top", "far"])
            if where == "bottom":
                y = -g
            elif where == "top":
                y = top + g
            else:
                y = top + 40.0
            x0 = -float(rng.randint(1, 5))
            cands.append([(x0, y), (x0 + 10.0, y)])
            script.append(rng.choice(["1", "0", "n"]))
        if rng.random() < 0.15:  # a collinear candidate overlapping the trace: None from the decision means STACKED, not ValueError
            gg = rng.choice([1.05, 1.05, 3.0]) * t
            cands.append([(0.0, 1.0), (0.0, 2.0), (2.0, 2.0), (2.0, top + gg), (-2.0, top + gg)])  # shares (0 1, 0 2) with the trace, passes over its top end
            script.append(rng.choice(["n", "n", "1"]))
        if len({tuple(c) for c in cands}) < len(cands):
            continue
        err0 = rng.choice(["UNDERLAPPING SNAP", "OVERLAPPING SNAP", "STACKED TRACES"])
        g_ls = LineString(geom)
        ov = [g_ls.overlaps(LineString(c)) for c in cands]
        cases.append(("underlap", t, m, geom, cands, script, err0))
        reqs.append(f"underlap t={rat(t)} m={rat(m)} geom={wline(geom)} cands={wlines(cands)} ul={','.join(script)} ov={','.join(str(int(b)) for b in ov)} err={enc(err0)}")
    for _ in range(budget(ctx.tier, 200, 3000)):
        t = rng.choice([0.01, 0.1])
        m, a = 1.1, 2.5
        g1 = rng.choice([0.5, 1.0, 1.2, 1.6, 2.5, 3.0, 10.0]) * t
        g2 = rng.choice([0.5, 1.2, 2.5, 3.0, 50.0]) * t
        geom = [(-8.0 + g1, float(rng.randint(-5, 5))), (float(rng.randint(-3, 3)), 8.0 - g2)]
        areas = [box(-8.0, -8.0, 8.0, 8.0)]
        if rng.random() < 0.4:
            areas.append(box(-8.0 - rng.choice([0.0, 1.2 * t, 5.0]), -9.0, 9.0, 9.0))
        cand = [rng.random() < 0.7 for _ in areas]
        cases.append(("areaval", t, m, a, geom, areas, cand))
        reqs.append(f"areaval t={rat(t)} m={rat(m)} a={rat(a)} geom={wline(geom)} areas={area_rows(areas)} cand={','.join(str(int(b)) for b in cand)}")
    # decision skeletons of trace_validation_utils with a scripted `split` (real LineString pieces, so distances and lengths are real)
    import fractopo.tval.trace_validation_utils as tvu

    for _ in range(budget(ctx.tier, 150, 2500)):
        t, m = 0.01, 1.1
        ep = (0.0, 0.0)
        if rng.random() < 0.15:
            pieces = None
        else:
            pieces = []
            for _ in range(rng.choice([1, 1, 2, 2, 3])):
                d = rng.choice([0.0, 0.5, 0.95, 1.05, 3.0, 40.0]) * t * m
                x0 = float(rng.randint(-3, 3))
                pieces.append([(x0, d), (x0 + rng.choice([-2.0, 2.0]) if x0 != 0 else 2.0, d + rng.choice([0.0, 1.0]))] if x0 != 0 else [(0.0, d), (2.0, d + 1.0)])
        cases.append(("gisul", t, m, ep, pieces))
        reqs.append(f"gisul t={rat(t)} m={rat(m)} ep={pt(ep)} split={'FAIL' if pieces is None else wlines(pieces)}")
    for _ in range(budget(ctx.tier, 200, 3000)):
        t, k = 0.01, 10.0
        if rng.random() < 0.15:
            pieces, ip = None, rng.random() < 0.5
        else:
            ip = True
            pieces, x = [], 0.0
            for _ in range(rng.choice([1, 2, 3, 3, 3, 3, 4, 5])):
                ln = rng.choice([0.0005, 0.002, 0.05, 0.2, 1.0])
                pieces.append([(x, 0.0), (x + ln, 0.0)])
                x += ln + rng.choice([0.0, 0.0, 5.0])
        cases.append(("gtri", t, k, ip, pieces))
        reqs.append(f"gtri t={rat(t)} k={rat(k)} ip={int(ip)} split={'FAIL' if pieces is None else wlines(pieces)}")
    # StackedTracesValidator.validation_method with both sub-tests scripted (the neighbour-set filter is real geometry on both sides)
    for _ in range(budget(ctx.tier, 150, 2500)):
        t, m, o = 0.01, 1.1, 50.0
        r_ = t * o * m
        geom = [(0.0, 0.0), (0.0, 10.0)]
        cands = []
        for _ in range(rng.randint(0, 3)):
            d = rng.choice([0.0, 0.5, 0.9, 1.1, 3.0, 20.0]) * r_
            y0 = float(rng.randint(1, 6))
            cands.append([(d if d > 0 else -1.0, y0), (d + 3.0, y0 + rng.choice([0.0, 2.0]))])
        if len({tuple(c) for c in cands}) < len(cands):
            continue
        along = rng.random() < 0.4
        tri = [rng.random() < 0.25 for _ in cands]
        cases.append(("gstackval", t, m, o, geom, cands, along, tri))
        reqs.append(f"gstackval t={rat(t)} m={rat(m)} o={rat(o)} geom={wline(geom)} cands={wlines(cands)} along={int(along)} tri={','.join(str(int(b)) for b in tri)}")
    # SharpCornerValidator.validation_method with scripted unit vectors / comparisons (vertex = its index)
    for _ in range(budget(ctx.tier, 150, 2500)):
        n = rng.randint(2, 6)
        chord_nan = rng.random() < 0.08
        nan = [rng.random() < 0.06 for _ in range(n - 1)]
        avgok = [rng.random() < 0.85 for _ in range(n - 1)]
        prevok = [rng.random() < 0.85 for _ in range(n - 1)]
        cases.append(("gsharp", n, chord_nan, nan, avgok, prevok))
        b = lambda l: ",".join(str(int(x)) for x in l)  # noqa: E731
        reqs.append(f"gsharp n={n} chordnan={int(chord_nan)} nan={b(nan)} avgok={b(avgok)} prevok={b(prevok)}")
    resps = ctx.gen.parallel(reqs)
    import numpy as _np
    orig_unit, orig_cmp = tv.create_unit_vector, tv.compare_unit_vector_orientation
    orig_swb, orig_tri = tv.segment_within_buffer, tv.split_to_determine_triangle_errors
    orig_split = tvu.split
    orig_ul = tv.is_underlapping
    orig_cand = tv.TargetAreaSnapValidator.is_candidate_underlapping
    cls = tv.UnderlappingSnapValidator
    orig_err = cls.ERROR
    try:
        for c, req, resp in zip(cases, reqs, resps):
            res.evaluations += 1
            if c[0] == "gsharp":
                _, n, chord_nan, nan, avgok, prevok = c

                def unit(a_, b_, _n=n, _cn=chord_nan, _nan=nan):
                    i, j = int(round(a_.x)), int(round(b_.x))
                    bad = _nan[i] if j == i + 1 else _cn
                    return _np.array([_np.nan, _np.nan]) if bad else _np.array([float(i), float(j)])

                def cmp_(v1, v2, thr, _a=avgok, _p=prevok):
                    return _a[int(v2[0])] if thr == 1.0 else _p[int(v1[0])]

                tv.create_unit_vector, tv.compare_unit_vector_orientation = unit, cmp_
                ok = tv.SharpCornerValidator.validation_method(LineString([(float(i), 0.1 * i * i) for i in range(n)]), 1.0, 2.0)
                want = f"ok={int(bool(ok))}"
                res.nontrivial += int(not ok)
            elif c[0] == "gstackval":
                _, t, m, o, geom, cands, along, tri = c
                c_ls = [LineString(x) for x in cands]
                tv.segment_within_buffer = lambda ls_, mls_, _al=along, **_: bool(_al and not mls_.is_empty)
                tv.split_to_determine_triangle_errors = lambda g_, sp_, _c=c_ls, _t=tri, **_: _t[next(i for i, x in enumerate(_c) if x.equals(sp_))]
                ok = tv.StackedTracesValidator.validation_method(LineString(geom), gpd.GeoSeries(c_ls), t, m, o, 10.0, 5.0)
                want = f"ok={int(bool(ok))}"
                res.nontrivial += int(not ok)
            elif c[0] in ("gisul", "gtri"):
                pieces = c[4]

                class _R:
                    def __init__(self, gs):
                        self.geoms = gs

                def scripted_split(a_, b_, _p=pieces):
                    if _p is None:
                        raise ValueError("scripted split failure")
                    return _R([LineString(x) for x in _p])

                tvu.split = scripted_split
                if c[0] == "gisul":
                    _, t, m, ep, _ = c
                    r_ = tvu.is_underlapping(LineString([(0, 0), (0, 5)]), LineString([(-1, 1), (1, 1)]), Point(ep), t, m)
                    want = "r=" + {None: "none", True: "true", False: "false"}[r_]
                else:
                    _, t, k, ip, _ = c
                    # a failed split looks at the real intersection of the two traces: crossing (a Point) or running along each other
                    a_ = LineString([(0, 0), (0, 5)])
                    b_ = LineString([(-1, 1), (1, 1)]) if ip else LineString([(0, 1), (0, 3)])
                    want = f"r={int(bool(tvu.split_to_determine_triangle_errors(a_, b_, t, k)))}"
                res.nontrivial += int(want not in ("r=none", "r=0"))
            elif c[0] == "underlap":
                _, t, m, geom, cands, script, err0 = c
                c_ls = [LineString(x) for x in cands]

                def scripted(geom_, trace, endpoint, st, stm, _c=c_ls, _s=script):
                    k = next(i for i, x in enumerate(_c) if x.equals(trace))
                    return {"1": True, "0": False, "n": None}[_s[k]]

                tv.is_underlapping = scripted
                cls.ERROR = err0
                try:
                    ok = cls.validation_method(LineString(geom), gpd.GeoSeries(c_ls), t, m)
                    want = f"ok={int(bool(ok))} err={enc(cls.ERROR)}"
                except ValueError:
                    want = "raise=ValueError"
                res.nontrivial += int(not want.startswith("ok=1"))
            else:
                _, t, m, a, geom, areas, cand = c

                def scripted_c(endpoint, geom_, area_polygon, snap_threshold, _a=areas, _c=cand):
                    k = next(i for i, x in enumerate(_a) if x.equals(area_polygon))
                    return _c[k]

                tv.TargetAreaSnapValidator.is_candidate_underlapping = staticmethod(scripted_c)
                ok = tv.TargetAreaSnapValidator.validation_method(LineString(geom), gpd.GeoDataFrame(geometry=areas), t, m, a)
                want = f"ok={int(bool(ok))}"
                res.nontrivial += int(not ok)
            res.distribution[c[0] + ":" + want] = res.distribution.get(c[0] + ":" + want, 0) + 1
            if resp.strip() != want:
                res.disagreements.append(Disagreement("S10-generated", {"stream": "S10-generated", "request": req}, resp.strip(), want, None,
                                                      "regenerated validator (Lean) and the Python method disagree: translator semantics wrong"))
    finally:
        tv.create_unit_vector, tv.compare_unit_vector_orientation = orig_unit, orig_cmp
        tv.segment_within_buffer, tv.split_to_determine_triangle_errors = orig_swb, orig_tri
        tvu.split = orig_split
        tv.is_underlapping = orig_ul
        tv.TargetAreaSnapValidator.is_candidate_underlapping = staticmethod(orig_cand)
        cls.ERROR = orig_err
    res.samples = [{"request": reqs[0][:200], "response": resps[0][:200]}]
    return res


STREAMS = [s10_windows, s10_stacking, s10_sharp, s10_generated]


def replay_finding(ctx, k):
    import json

    from harness.common import VERIF

    case = json.loads((VERIF / k["witness"]).read_text())["case"]
    d = replay(ctx, case["stream"], case)
    return d is not None


def replay(ctx, stream, case):
    from shapely.geometry import LineString, Polygon

    if stream == "S10-generated":
        r = s10_generated(ctx)
        return r.disagreements[0] if r.disagreements else None
    errs = validate(([LineString(g).wkt for g in case["geoms"]], case["t"], Polygon(case["area"]).wkt))
    if stream == "S10-stacking":
        return _judge_stacking(case, errs)
    if stream == "S10-sharp":
        return _judge_sharp(case, errs)
    res = StreamResult("replay")
    # re-judge through the stream logic on this single case
    c = dict(case)
    req = (f"feature t={rat(c['t'])} m={rat(M)} a={rat(A)} end={pt(c['end'])} target={line(c['target'] if c['kind'] != 'area' else [c['end'], c['end']])} areas={line(c['area'])}")
    m = parse_resp(ctx.driver.batch([req])[0])
    got = errs[c["planted"]] if not isinstance(errs, str) else errs
    if isinstance(errs, str):
        return Disagreement(stream, case, m, errs, True, "raised")
    if c["kind"] in ("under", "over"):
        inside = m["under"] == "1"
        want = "UNDERLAPPING SNAP" if c["kind"] == "under" else "OVERLAPPING SNAP"
        ok = (want in got) if inside else ("UNDERLAPPING SNAP" not in got and "OVERLAPPING SNAP" not in got)
    elif c["kind"] == "area":
        ok = ("TRACE UNDERLAPS TARGET AREA" in got) == (m["area"] == "1")
    elif c["kind"] == "stack":
        ok = all(("STACKED TRACES" in e) == (c["rel"] == "inside") for e in errs)
    else:
        ok = ("V NODE" in got) == (c["rel"] in (0.5, 0.9, "mid"))
    return None if ok else Disagreement(stream, case, m, got, True, "verdict does not match the window")
