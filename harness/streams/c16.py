"""S16 — every public result with the real spatial index vs an index that answers every candidate search with all features."""
from __future__ import annotations

import math

import multiprocessing as mp
from fractions import Fraction as F

from harness.common import Disagreement, StreamResult, area_rows, budget, import_fractopo, lines, rng_for
from harness.mapgen import to_float_lines, valid_maps
from harness.valgen import T, area_for, gadgets, place


_REAL_INTERSECTION = None


def install_stub(stub=True):
    """replace (stub=True) or RESTORE (stub=False) the spatial index query of this process: a pool worker runs several cases, and a stub left behind by one case would
    turn the next "real index" run into a stub run (the twins would then always agree)"""
    global _REAL_INTERSECTION
    import numpy as np
    from geopandas.sindex import SpatialIndex

    if _REAL_INTERSECTION is None:
        _REAL_INTERSECTION = SpatialIndex.intersection

    def everything(self, coordinates, *a, **k):
        return np.arange(self.size)

    SpatialIndex.intersection = everything if stub else _REAL_INTERSECTION


def close_nodes(r_, t):
    """two DIFFERENT nodes closer to each other than a few thresholds: not a crisp configuration (which nodes count as "at the end of a branch" then depends on which
    neighbours the index happens to report)"""
    pts = [(x, y) for x, y, _ in r_["nodes"]] if isinstance(r_, dict) and "nodes" in r_ else []
    return any(0 < math.hypot(a[0] - b[0], a[1] - b[1]) < 5 * t for i_, a in enumerate(pts) for b in pts[i_ + 1:])


def canon_val(out):
    return [tuple(sorted(e)) for e in out["VALIDATION_ERRORS"].values]


def run_validation_case(arg):
    wkts, stub = arg[0], arg[1]
    t_ = arg[2] if len(arg) > 2 else T
    import_fractopo()
    install_stub(bool(stub))
    import geopandas as gpd
    from shapely import wkt

    from fractopo.tval.trace_validation import Validation

    gdf = gpd.GeoDataFrame(geometry=[wkt.loads(w) for w in wkts])
    try:
        return canon_val(Validation(gdf, area_for(gdf), "s", True, SNAP_THRESHOLD=t_).run_validation())
    except Exception as e:
        return f"{type(e).__name__}: {str(e)[:120]}"


def run_extraction_case(arg):
    traces, area_wkt, t, circular, stub = arg
    import_fractopo()
    install_stub(bool(stub))
    import geopandas as gpd
    from shapely import wkt
    from shapely.geometry import LineString

    from fractopo import Network
    from fractopo.general import crop_to_target_areas
    from fractopo.tval.proximal_traces import determine_proximal_traces

    tr = gpd.GeoDataFrame(geometry=[LineString(l) for l in traces])
    ar = gpd.GeoDataFrame(geometry=[wkt.loads(area_wkt)])
    try:
        net = Network(trace_gdf=tr, area_gdf=ar, name="s", determine_branches_nodes=True, snap_threshold=t, truncate_traces=True, circular_target_area=circular)
        out = {
            "nodes": sorted((round(p.x, 9), round(p.y, 9), c) for p, c in zip(net.node_gdf.geometry.values, net.node_gdf["Class"].values)),
            "branches": sorted((c, g.wkt) for g, c in zip(net.branch_gdf.geometry.values, net.branch_gdf["Connection"].values)),
            "crop": sorted(g.wkt for g in crop_to_target_areas(tr, ar, keep_column_data=True).geometry.values),
            "trace_boundary": [int(x) for x in net.trace_intersects_target_area_boundary],
            "branch_boundary": [int(x) for x in net.branch_intersects_target_area_boundary],
            "proximal": [bool(x) for x in determine_proximal_traces(tr.copy(), 1.5, 15.0)["Merge"].values],
        }
        return out
    except Exception as e:
        return f"{type(e).__name__}: {str(e)[:160]}"


def near_threshold_frames(rng, n, tier="quick"):
    """pairs of traces whose RELATION is inside a tested distance while their bounding boxes do not meet unextended; for the
    default threshold and for user-supplied thresholds above / below it. Returns [(geoms, threshold)]"""
    from shapely import affinity
    from shapely.geometry import LineString

    L = LineString
    structured = []
    m, k = 1.1, 5.0
    for t in (T, 0.1, 0.001):
        seps = [0.5 * t, 0.95 * t * m, 1.05 * t, 0.98 * t * m * k, 0.955 * t * m * k, 0.93 * t * m * k, 1.3 * t * m * k]
        for d in seps:
            base = [
                [L([(-5, 0), (5, 0)]), L([(-3, d), (7, d)])],            # long parallel neighbours (stacking window)
                [L([(-5, 0), (5, 0)]), L([(0, 3), (0, d)])],             # T: end near the interior (under/overlap window)
                [L([(-5, 0), (5, 0)]), L([(5 + d, 0), (9, 0)])],         # collinear end to end (V-node window)
                [L([(-5, 0), (5, 0)]), L([(5, d), (5, 4)])],             # end near an end, perpendicular
            ]
            for pair in base:
                for ang in (0, 90, 45, 10):
                    structured.append(([affinity.rotate(g, ang, origin=(0, 0)) for g in pair], t))
    if tier == "quick":
        # all axis-parallel frames (degenerate boxes: where a window margin matters) + a seeded third of the rest
        structured = [f for i, f in enumerate(structured) if (i % 4) in (0, 1) or rng.random() < 0.34]
    frames = list(structured)
    G = gadgets()
    names = ["valid_x", "valid_y", "vnode", "multijunction", "stacked", "underlap", "overlap", "multicross", "cuts_itself", "underlap_diag"]
    while len(frames) < n:
        geoms = []
        for i, nm in enumerate(rng.sample(names, rng.randint(2, 4))):
            geoms += [place(g, 60.0 * i, 0.0) for g in G[nm]]
        rng.shuffle(geoms)
        frames.append((geoms, T))
    return frames


def s16_validation(ctx):
    res = StreamResult("S16-validation", rule="near-threshold pairs (separation inside / outside each tested distance: t, t*m, t*m*k; thresholds 0.01 default, 0.1 and 0.001 user-supplied) in axis-parallel, 90, 45, 10 degree "
                       "orientations incl. end-of-trace and collinear configurations with degenerate boxes, plus planted-defect frames: Validation verdicts with the "
                       "real index vs an index answering everything; non-trivial = frame with an error")
    rng = rng_for(ctx.seed, "S16v")
    frames = near_threshold_frames(rng, budget(ctx.tier, 260, 700), ctx.tier)
    args = [([g.wkt for g in f], s, t_) for f, t_ in frames for s in (False, True)]
    with mp.get_context("fork").Pool(16, maxtasksperchild=8) as pool:
        outs = pool.map(run_validation_case, args, chunksize=2)
    for i, (f, t_) in enumerate(frames):
        real, stub = outs[2 * i], outs[2 * i + 1]
        res.evaluations += 1
        res.distribution[f"t={t_}"] = res.distribution.get(f"t={t_}", 0) + 1
        if not isinstance(real, str) and any(real):
            res.nontrivial += 1
        if real != stub:
            res.disagreements.append(Disagreement("S16-validation", {"stream": "S16-validation", "wkt": [g.wkt for g in f], "t": t_}, stub, real, True,
                                                  "validation verdicts differ between the spatial index and all-pairs candidates"))
    res.samples = [{"wkt": [g.wkt for g in frames[0][0]], "t": frames[0][1]}]
    return res


def s16_extraction(ctx):
    res = StreamResult("S16-extraction", rule="valid maps (Lean oracle) in box and circular areas: nodes, branches, cropped traces, boundary-intersection counts and "
                       "proximal-trace flags with the real index vs an index answering everything; non-trivial = map with an X or Y node")
    rng = rng_for(ctx.seed, "S16e")
    import_fractopo()
    t = 0.01
    maps, _ = valid_maps(ctx, rng, budget(ctx.tier, 24, 300), F(t), area_kinds=("box", "circle"))
    args = []
    for traces, area, kind, ar in maps:
        fl = [[(float(x), float(y)) for x, y in l] for l in traces]
        for s in (False, True):
            args.append((fl, area.wkt, t, kind == "circle", s))
    with mp.get_context("fork").Pool(16, maxtasksperchild=8) as pool:
        outs = pool.map(run_extraction_case, args, chunksize=1)
    for i, (traces, area, kind, ar) in enumerate(maps):
        real, stub = outs[2 * i], outs[2 * i + 1]
        res.evaluations += 1
        if any(c in "XY" for _, c in ar.nodes):
            res.nontrivial += 1
        if real != stub:
            diff = [k for k in real if real[k] != stub[k]] if isinstance(real, dict) and isinstance(stub, dict) else "raised"
            res.disagreements.append(Disagreement("S16-extraction", {"stream": "S16-extraction", "traces": lines(traces), "areas": area_rows([area]), "t": t, "kind": kind},
                                                  {k: stub[k] for k in diff} if isinstance(diff, list) else (stub if isinstance(stub, str) else "completes"),
                                                  {k: real[k] for k in diff} if isinstance(diff, list) else (real if isinstance(real, str) else "completes"), True,
                                                  f"results differ between the spatial index and all-pairs candidates: {diff}"))
    res.samples = [{"maps": len(maps)}]
    return res


def run_multiarea_case(arg):
    traces, area_wkts, t, stub = arg
    import_fractopo()
    install_stub(bool(stub))
    import geopandas as gpd
    from shapely import wkt
    from shapely.geometry import LineString

    from fractopo.branches_and_nodes import branches_and_nodes
    from fractopo.general import crop_to_target_areas, determine_boundary_intersecting_lines

    tr = gpd.GeoDataFrame(geometry=[LineString(l) for l in traces])
    ar = gpd.GeoDataFrame(geometry=[wkt.loads(w) for w in area_wkts])
    try:
        a, b = determine_boundary_intersecting_lines(tr, ar, t)
        cropped = crop_to_target_areas(tr, ar, keep_column_data=True)
        br, nd = branches_and_nodes(tr, ar, t, already_clipped=False)
        return {
            "boundary_intersecting": [bool(x) for x in a], "boundary_cuts_through": [bool(x) for x in b],
            "crop": sorted(g.wkt for g in cropped.geometry.values),
            "nodes": sorted((round(p.x, 9), round(p.y, 9), c) for p, c in zip(nd.geometry.values, nd["Class"].values)),
            "branches": sorted((c, g.wkt) for g, c in zip(br.geometry.values, br["Connection"].values)),
        }
    except Exception as e:
        return f"{type(e).__name__}: {str(e)[:160]}"


def s16_multiarea(ctx):
    res = StreamResult("S16-multiarea", rule="area frames of 2..3 rows (disjoint boxes / circles, incl. rows with NO trace anywhere near them, in every row position; in 30% an additional EMPTY polygon row) with traces "
                       "ending on, crossing and lying inside the boundaries: determine_boundary_intersecting_lines, crop_to_target_areas and branches_and_nodes with the real index "
                       "vs an index answering everything; non-trivial = some trace meets a boundary and some row has an empty candidate window")
    from shapely.geometry import Point, box

    rng = rng_for(ctx.seed, "S16m")
    t = 0.01
    args, cases = [], []
    for _ in range(budget(ctx.tier, 40, 600)):
        rows = []
        centres = [(0.0, 0.0), (40.0, 5.0), (-30.0, 45.0)]
        rng.shuffle(centres)
        k = rng.randint(2, 3)
        shapes = []
        for cx, cy in centres[:k]:
            if rng.random() < 0.5:
                shapes.append(box(cx - 8.0, cy - 8.0, cx + 8.0, cy + 8.0))
            else:
                shapes.append(Point(cx, cy).buffer(8.0))
        mapped = [rng.random() < 0.6 for _ in shapes]
        if not any(mapped):
            mapped[rng.randrange(len(mapped))] = True
        traces = []
        for (cx, cy), m_ in zip(centres[:k], mapped):
            if not m_:
                continue
            for _ in range(rng.randint(1, 4)):
                kind = rng.choice(["inside", "cross", "through"])
                y = cy + rng.randint(-20, 20) / 4
                if kind == "inside":
                    traces.append([(cx - rng.randint(4, 20) / 4, y), (cx + rng.randint(4, 20) / 4, y + rng.randint(-4, 4) / 4)])
                elif kind == "cross":
                    traces.append([(cx + rng.randint(-8, 8) / 4, y), (cx + 12.0, y + rng.randint(-4, 4) / 4)])
                else:
                    traces.append([(cx - 12.0, y), (cx + 12.0, y + rng.randint(-8, 8) / 4)])
        # an area layer can carry a row without geometry (an EMPTY polygon left behind by an edit): it contributes nothing and must not blind the index
        if rng.random() < 0.3:
            from shapely.geometry import Polygon as _Polygon

            pos = rng.randint(0, len(shapes))
            shapes.insert(pos, _Polygon())
            mapped.insert(pos, False)
            res.distribution["area_layers_with_an_empty_row"] = res.distribution.get("area_layers_with_an_empty_row", 0) + 1
        cases.append((traces, [g.wkt for g in shapes], mapped))
        for s_ in (False, True):
            args.append((traces, [g.wkt for g in shapes], t, s_))
    with mp.get_context("fork").Pool(16, maxtasksperchild=8) as pool:
        outs = pool.map(run_multiarea_case, args, chunksize=1)
    for i, (traces, wkts, mapped) in enumerate(cases):
        real, stub = outs[2 * i], outs[2 * i + 1]
        res.evaluations += 1
        if isinstance(real, dict) and any(real["boundary_intersecting"]) and not all(mapped):
            res.nontrivial += 1
        res.distribution["rows=%d empty_rows=%d" % (len(mapped), mapped.count(False))] = res.distribution.get("rows=%d empty_rows=%d" % (len(mapped), mapped.count(False)), 0) + 1
        if real != stub:
            if close_nodes(real, t) or close_nodes(stub, t):
                res.skipped["nodes_closer_than_5_thresholds_not_crisp"] = res.skipped.get("nodes_closer_than_5_thresholds_not_crisp", 0) + 1
                continue
            diff = [k_ for k_ in real if real[k_] != stub[k_]] if isinstance(real, dict) and isinstance(stub, dict) else "raised"
            both = isinstance(real, dict) and isinstance(stub, dict)
            res.disagreements.append(Disagreement("S16-multiarea", {"stream": "S16-multiarea", "traces": traces, "area_wkts": wkts, "t": t},
                                                  {k_: stub[k_] for k_ in diff} if both else (stub if isinstance(stub, str) else "completes"),
                                                  {k_: real[k_] for k_ in diff} if both else (real if isinstance(real, str) else "completes"), True,
                                                  f"results differ between the spatial index and all-pairs candidates: {diff}"))
    res.samples = [{"traces": cases[0][0][:3], "areas": len(cases[0][1])}]
    return res


STREAMS = [s16_validation, s16_extraction, s16_multiarea]


def replay(ctx, stream, case):
    if stream == "S16-multiarea":
        with mp.get_context("fork").Pool(2, maxtasksperchild=1) as pool:
            real, stub = pool.map(run_multiarea_case, [(case["traces"], case["area_wkts"], case["t"], s_) for s_ in (False, True)], chunksize=1)
        if real != stub and (close_nodes(real, case["t"]) or close_nodes(stub, case["t"])):
            return None  # not crisp (see close_nodes)
        return None if real == stub else Disagreement(stream, case, stub, real, True, "results differ")
    if stream == "S16-validation":
        with mp.get_context("fork").Pool(2, maxtasksperchild=1) as pool:
            real, stub = pool.map(run_validation_case, [(case["wkt"], False, case.get("t", T)), (case["wkt"], True, case.get("t", T))], chunksize=1)
        return None if real == stub else Disagreement(stream, case, stub, real, True, "verdicts differ")
    from harness.common import parse_lines
    from shapely.geometry import Polygon

    traces = parse_lines(case["traces"])
    rings = parse_lines(case["areas"].split("#")[0].split("&")[0])
    fl = lambda l: [(float(x), float(y)) for x, y in l]  # noqa: E731
    area = Polygon(fl(rings[0]), [fl(r) for r in rings[1:]])
    args = [([fl(l) for l in traces], area.wkt, case["t"], case.get("kind") == "circle", s) for s in (False, True)]
    with mp.get_context("fork").Pool(2, maxtasksperchild=1) as pool:
        real, stub = pool.map(run_extraction_case, args, chunksize=1)
    return None if real == stub else Disagreement(stream, case, stub, real, True, "results differ")
