"""S07 — crop_to_target_areas against the Crop model instantiated with the exact clipLine."""
from __future__ import annotations

import math
from fractions import Fraction as F

from harness.common import Disagreement, StreamResult, area_rows, budget, import_fractopo, lines, parse_lines, parse_resp, rng_for

F20_KEY = "F20:trace-touches-boundary-in-an-isolated-point"


def gen_areas(rng):
    from shapely.geometry import MultiPolygon, Polygon, box

    kind = rng.choice(["box", "concave", "hole", "multi", "two_rows", "two_rows_overlap"])
    if kind == "box":
        return kind, [box(-16, -16, 16, 16)]
    if kind == "concave":
        return kind, [Polygon([(-16, -16), (16, -16), (16, 16), (0, 2), (-16, 16)])]
    if kind == "hole":
        return kind, [Polygon([(-16, -16), (16, -16), (16, 16), (-16, 16)], [[(-5, -4), (6, -4), (6, 5), (-5, 5)]])]
    if kind == "multi":
        return kind, [MultiPolygon([box(-16, -16, -3, 16), box(3, -16, 16, 16)])]
    if kind == "two_rows":
        return kind, [box(-16, -16, -2, 16), box(4, -10, 16, 10)]
    return kind, [box(-16, -16, 2, 16), box(-4, -10, 16, 10)]


def self_overlaps(pts) -> bool:
    """the polyline runs back along itself (two of its segments share a stretch of positive length); exact on the 1/8 lattice.
    For such a line "the length of trace-intersect-areas" is the measure of a point SET (GEOS counts the doubled stretch once)
    while the path length counts it twice: the statement of C07 is about lines for which the two agree."""
    q = [(round(x * 8), round(y * 8)) for x, y in pts]
    sg = list(zip(q[:-1], q[1:]))
    for i in range(len(sg)):
        for j in range(i + 1, len(sg)):
            (a, b), (c, d) = sg[i], sg[j]
            ux, uy = b[0] - a[0], b[1] - a[1]
            if ux * (d[1] - c[1]) - uy * (d[0] - c[0]) != 0 or ux * (c[1] - a[1]) - uy * (c[0] - a[0]) != 0:
                continue  # not collinear
            uu = ux * ux + uy * uy
            s0, s1 = sorted([ux * (c[0] - a[0]) + uy * (c[1] - a[1]), ux * (d[0] - a[0]) + uy * (d[1] - a[1])])
            if max(s0, 0) < min(s1, uu):
                return True
    return False


def gen_frame(rng, areas):
    import geopandas as gpd
    from shapely.geometry import LineString

    n = rng.randint(1, 9)
    geoms = []
    for _ in range(n):
        mode = rng.random()
        if mode < 0.08:  # lying on the boundary of the first area
            ring = list((areas[0].geoms[0] if hasattr(areas[0], "geoms") else areas[0]).exterior.coords)
            i = rng.randrange(len(ring) - 1)
            (x1, y1), (x2, y2) = ring[i], ring[i + 1]
            a, b = sorted([rng.choice([0.0, 0.25, 0.5]), rng.choice([0.5, 0.75, 1.0, 1.5])])
            if a == b:
                b = a + 0.25
            geoms.append(LineString([(x1 + a * (x2 - x1), y1 + a * (y2 - y1)), (x1 + b * (x2 - x1), y1 + b * (y2 - y1))]))
        elif mode < 0.16:  # entirely outside
            geoms.append(LineString([(40 + rng.randint(0, 8), rng.randint(-8, 8)), (50, rng.randint(-8, 8))]))
        else:
            k = rng.randint(2, 6)
            pts = [(rng.randint(-192, 192) / 8, rng.randint(-192, 192) / 8)]
            for _ in range(k - 1):
                pts.append((pts[-1][0] + rng.randint(-160, 160) / 8, pts[-1][1] + rng.randint(-160, 160) / 8))
            if len(set(pts)) < len(pts) or self_overlaps(pts):
                continue
            geoms.append(LineString(pts))
    if not geoms:
        geoms = [LineString([(-20, 0.5), (20, 1.5)])]
    idx_mode = rng.choice(["default", "ints", "strings", "nonmono", "dup"])
    m = len(geoms)
    index = index_for(idx_mode, m)
    data = {"uid": [f"u{i}" for i in range(m)], "val": [i * 1.5 for i in range(m)]}
    if rng.random() < 0.5:
        data["length"] = [99.0] * m  # a column named like one the package itself uses
    gdf = gpd.GeoDataFrame(data, geometry=geoms, index=index)
    return gdf, idx_mode


def xy(g):
    return [tuple(c[:2]) for c in g.coords]


def index_for(mode, m):
    return {"default": list(range(m)), "ints": [10 * i + 7 for i in range(m)], "strings": [f"r{i}" for i in range(m)],
            "nonmono": list(range(m))[::-1], "dup": [i // 2 for i in range(m)], "shuffled": [(i * 7 + 3) % m for i in range(m)] if m % 7 else list(range(m))[::-1]}[mode]


def add_z(gdf, salt=0):
    """the same frame with a Z value on every vertex (traces digitised with elevation)"""
    from shapely.geometry import LineString

    out = gdf.copy()
    out["geometry"] = [LineString([(x, y, 10.0 + ((i * 31 + j * 7 + salt) % 13) / 4) for j, (x, y) in enumerate(xy(g))]) for i, g in enumerate(gdf.geometry.values)]
    return out


def length_of(pts):
    return sum(math.hypot(float(b[0] - a[0]), float(b[1] - a[1])) for a, b in zip(pts[:-1], pts[1:]))


def check_case(ctx, gdf, areas, resp, res, stream, meta, route="function"):
    import geopandas as gpd
    from shapely.geometry import LineString

    from fractopo.general import MINIMUM_LINE_LENGTH, crop_to_target_areas

    r = parse_resp(resp)
    per_trace = [parse_lines(x) for x in r["pieces"].split("#")] if "pieces" in r else None
    touch = [x == "1" for x in r.get("touch", "").split(",")] if r.get("touch") else []
    case = {"stream": stream, "traces": lines([xy(g) for g in gdf.geometry.values]), "areas": area_rows(areas), "meta": meta,
            "index": [str(i) for i in gdf.index], "uids": list(gdf["uid"]), "route": route, "z": bool(any(g.has_z for g in gdf.geometry.values))}
    if any(touch):
        case["finding_key"] = F20_KEY
    # coordinate reference systems as users have them: on both layers, on one of them only (a layer saved without one), on neither
    crs_mode = meta.get("crs", "none")
    if crs_mode in ("traces", "both") and gdf.crs is None:
        gdf = gdf.set_crs("EPSG:3067")
    area_gdf = gpd.GeoDataFrame(geometry=list(areas), crs="EPSG:3067" if crs_mode in ("areas", "both") else None)
    before = gdf.copy(deep=True)
    area_before = area_gdf.copy(deep=True)
    crs_before = (gdf.crs, area_gdf.crs)
    nothing_inside = not any(length_of(pc) > MINIMUM_LINE_LENGTH for pcs in per_trace for pc in pcs)
    try:
        if route == "network":
            # the documented way to crop: Network(truncate_traces=True) removes Z-coordinates, crops with the column data and
            # renumbers the rows
            from fractopo import Network

            out = Network(trace_gdf=gdf, area_gdf=area_gdf, name="n", determine_branches_nodes=False, truncate_traces=True,
                          circular_target_area=False, snap_threshold=0.001).trace_gdf
        else:
            out = crop_to_target_areas(gdf, area_gdf, keep_column_data=True)
    except Exception as e:
        if route == "network" and nothing_inside and isinstance(e, ValueError) and "Empty trace" in str(e):
            res.distribution["network_refuses_empty_crop"] = res.distribution.get("network_refuses_empty_crop", 0) + 1
            return
        res.disagreements.append(Disagreement(stream, case, "pieces", f"{type(e).__name__}: {e}", True, "crop raised"))
        return
    problems = []
    # caller's frames untouched
    if not (before.index.equals(gdf.index) and list(before.columns) == list(gdf.columns) and before.geometry.geom_equals(gdf.geometry).all()
            and all((before[c] == gdf[c]).all() for c in before.columns if c != "geometry")):
        problems.append("the caller's trace frame was modified")
    if not (area_before.index.equals(area_gdf.index) and area_before.geometry.geom_equals(area_gdf.geometry).all()):
        problems.append("the caller's area frame was modified")
    if (gdf.crs, area_gdf.crs) != crs_before:
        problems.append(f"the coordinate reference system of a caller's frame was changed: {crs_before} -> {(gdf.crs, area_gdf.crs)}")
    if not all(isinstance(g, LineString) for g in out.geometry.values):
        problems.append("multi-part or non-line geometry in the output")
        out = out.loc[[isinstance(g, LineString) for g in out.geometry.values]]
    # per source row: the output rows with its attributes must lie on its exact clip pieces and have the same
    # total length (GEOS may split a piece further, e.g. where a trace runs onto the boundary; the property speaks
    # about coverage, attributes and total length, not about the segmentation)
    def seg_dist(p, a, b):
        ax, ay, bx, by = float(a[0]), float(a[1]), float(b[0]), float(b[1])
        dx, dy = bx - ax, by - ay
        l2 = dx * dx + dy * dy
        tt = 0.0 if l2 == 0 else max(0.0, min(1.0, ((p[0] - ax) * dx + (p[1] - ay) * dy) / l2))
        return math.hypot(p[0] - (ax + tt * dx), p[1] - (ay + tt * dy))

    def on_pieces(cs, pcs):
        pts = list(cs) + [((a[0] + b[0]) / 2, (a[1] + b[1]) / 2) for a, b in zip(cs[:-1], cs[1:])]
        return all(any(seg_dist(p, a, b) < 1e-7 for pc in pcs for a, b in zip(pc[:-1], pc[1:])) for p in pts)

    got_by_uid = {}
    for u, v, g in zip(out["uid"], out["val"], out.geometry.values):
        got_by_uid.setdefault((u, v), []).append(xy(g))
    expected_n = 0
    for uid, val, pcs in zip(gdf["uid"], gdf["val"], per_trace):
        pcs = [pc for pc in pcs if length_of(pc) > MINIMUM_LINE_LENGTH]
        expected_n += len(pcs)
        rows_out = got_by_uid.pop((uid, val), [])
        le, lg = sum(length_of(pc) for pc in pcs), sum(length_of(cs) for cs in rows_out)
        if abs(le - lg) > 1e-7 * max(1.0, le):
            problems.append(f"row {uid}: length inside the areas {le!r}, output rows with its attributes {lg!r}")
        elif not all(on_pieces(cs, pcs) for cs in rows_out):
            problems.append(f"row {uid}: an output row does not lie on the part of its source trace inside the areas")
    if got_by_uid:
        problems.append(f"output rows whose attribute values belong to no input row: {list(got_by_uid)[:4]}")
    expected = [None] * expected_n
    got = list(out.geometry.values)
    npieces = [len(p) for p in per_trace]
    res.distribution["rows_cut_into_several"] = res.distribution.get("rows_cut_into_several", 0) + sum(1 for k in npieces if k > 1)
    res.distribution["rows_outside"] = res.distribution.get("rows_outside", 0) + sum(1 for k in npieces if k == 0)
    res.distribution[f"areas_{meta['areas']}"] = res.distribution.get(f"areas_{meta['areas']}", 0) + 1
    res.distribution[f"index_{meta['index']}"] = res.distribution.get(f"index_{meta['index']}", 0) + 1
    res.distribution[f"crs_{crs_mode}"] = res.distribution.get(f"crs_{crs_mode}", 0) + 1
    if any(k > 1 for k in npieces):
        res.nontrivial += 1
    if len(res.samples) < 2:
        res.samples.append({"case": {k: case[k] for k in ("traces", "areas", "index", "route", "z")}, "pieces_per_row": npieces})
    if problems:
        res.disagreements.append(Disagreement(stream, case, {"pieces_per_row": npieces, "expected_rows": len(expected)}, {"rows": len(got)}, True, "; ".join(problems)))


def s07_crop(ctx):
    import_fractopo()
    res = StreamResult("S07-crop", rule="frames of 1..9 polylines (crossing the boundary 0..k times, on it, outside; a CRS on both layers / the traces only / the areas only / neither) with attribute columns (one named "
                       "'length') and index labels (default, ints, strings, reversed, duplicated) x box / concave / holed / multipolygon / two rows "
                       "(disjoint, overlapping); non-trivial = some row is cut into several pieces")
    rng = rng_for(ctx.seed, "S07")
    cases = []
    for _ in range(budget(ctx.tier, 250, 6000)):
        kind, areas = gen_areas(rng)
        gdf, idx_mode = gen_frame(rng, areas)
        crs_mode = rng.choice(["none", "none", "traces", "areas", "both"])
        if crs_mode in ("traces", "both"):
            gdf = gdf.set_crs("EPSG:3067")
        cases.append((gdf, areas, {"areas": kind, "index": idx_mode, "crs": crs_mode}))
    reqs = [f"clip areas={area_rows(a)} traces={lines([list(g.coords) for g in gdf.geometry.values])}" for gdf, a, _ in cases]
    resps = ctx.driver.parallel(reqs)
    for (gdf, areas, meta), resp in zip(cases, resps):
        res.evaluations += 1
        check_case(ctx, gdf, areas, resp, res, "S07-crop", meta)
    return res


def s07_network(ctx):
    """the same judge, cropping the documented way: Network(truncate_traces=True) -- z-coordinate removal, the defensive copies, the crop with the
    column data, the renumbering -- on frames with elevation values and every index kind, twice on the same caller's frame with different areas"""
    import_fractopo()
    res = StreamResult("S07-network", rule="the frames and areas of S07-crop (index labels default / ints / strings / reversed / shuffled / duplicated), half of them "
                       "with Z values on every vertex, cropped by Network(truncate_traces=True).trace_gdf, twice on the SAME caller's frame with two different "
                       "area sets; the exact clip decides coverage, length, attribute carry-over; the caller's frames must stay as they were; "
                       "non-trivial = some row is cut into several pieces")
    rng = rng_for(ctx.seed, "S07n")
    cases = []
    for _ in range(budget(ctx.tier, 60, 1500)):
        kind, areas = gen_areas(rng)
        gdf, idx_mode = gen_frame(rng, areas)
        if rng.random() < 0.2:
            idx_mode = "shuffled"
            gdf.index = index_for("shuffled", len(gdf))
        z = rng.random() < 0.5
        if z:
            gdf = add_z(gdf, rng.randint(0, 12))
        kind2, areas2 = gen_areas(rng)
        crs_mode = rng.choice(["none", "none", "traces", "areas", "both"])
        if crs_mode in ("traces", "both"):
            gdf = gdf.set_crs("EPSG:3067")
        cases.append((gdf, areas, {"areas": kind, "index": idx_mode, "z": z, "step": 1, "crs": crs_mode}))
        cases.append((gdf, areas2, {"areas": kind2, "index": idx_mode, "z": z, "step": 2, "crs": crs_mode}))
    reqs = [f"clip areas={area_rows(a)} traces={lines([xy(g) for g in gdf.geometry.values])}" for gdf, a, _ in cases]
    resps = ctx.driver.parallel(reqs)
    for (gdf, areas, meta), resp in zip(cases, resps):
        res.evaluations += 1
        res.distribution["with_z"] = res.distribution.get("with_z", 0) + int(meta["z"])
        check_case(ctx, gdf, areas, resp, res, "S07-network", meta, route="network")
    return res


def s07_generated(ctx):
    """translator validation: the REGENERATED dissolve_multi_part_traces (frame branch, compiled into gen_c07) vs the real function"""
    import_fractopo()
    import geopandas as gpd
    from shapely.geometry import LineString, MultiLineString, Point

    from fractopo.general import dissolve_multi_part_traces
    from harness.common import parse_resp, rng_for

    res = StreamResult("S07-generated", rule="regenerated dissolve_multi_part_traces (Lean, compiled) vs the real function on frames of 1..7 rows: LineStrings, MultiLineStrings of "
                       "2..4 parts, an EMPTY MultiLineString (ValueError), a Point row (TypeError when something is dissolved); every index kind; compared: the sequence of "
                       "(row data, part) or the exception; non-trivial = a multi-part row is dissolved or an exception is raised")
    if ctx.gen is None:
        res.note = "gen_c07 not built (a generated module is broken): skipped"
        res.skipped["generated_driver_not_built"] = 1
        return res
    rng = rng_for(ctx.seed, "S07g")
    cases, reqs = [], []
    for _ in range(budget(ctx.tier, 300, 5000)):
        codes = [rng.choice([1, 1, 1, 2, 3, 4, 10, 9]) if rng.random() < 0.9 else 1 for _ in range(rng.randint(1, 7))]
        if codes.count(10) + codes.count(9) > 1:
            continue
        cases.append(codes)
        reqs.append("gdissolve rows=" + ";".join(f"{u}:{c}" for u, c in enumerate(codes)))
    resps = ctx.gen.parallel(reqs)
    for codes, req, resp in zip(cases, reqs, resps):
        res.evaluations += 1
        geoms = []
        for u, c in enumerate(codes):
            if c == 1:
                geoms.append(LineString([(u * 10.0, 0.0), (u * 10.0, 1.0)]))
            elif c == 9:
                geoms.append(Point(u * 10.0, 0.0))
            elif c == 10:
                geoms.append(MultiLineString([]))
            else:
                geoms.append(MultiLineString([[(u * 10.0 + j + 1, 0.0), (u * 10.0 + j + 1, 1.0)] for j in range(c)]))
        idx = rng.choice([list(range(len(codes))), [7 * i + 3 for i in range(len(codes))], [i // 2 for i in range(len(codes))]])
        frame = gpd.GeoDataFrame({"uid": list(range(len(codes)))}, geometry=geoms, index=idx)
        try:
            out = dissolve_multi_part_traces(frame)
            want = []
            for uid, g in zip(out["uid"], out.geometry.values):
                c = codes[uid]
                if isinstance(g, LineString):
                    part = 0 if c == 1 else int(round(g.coords[0][0] - uid * 10.0))
                    want.append(f"{uid}:1:{part}")
                elif isinstance(g, Point):
                    want.append(f"{uid}:9:0")
                else:
                    want.append(f"{uid}:{c}:0")
            want = "rows=" + ";".join(want)
        except (ValueError, TypeError) as e:
            want = "err=" + type(e).__name__
        res.nontrivial += int(any(c not in (1, 9) for c in codes))
        if resp.strip() != want:
            res.disagreements.append(Disagreement("S07-generated", {"stream": "S07-generated", "request": req, "index": idx}, resp.strip(), want, None,
                                                  "regenerated dissolve_multi_part_traces (Lean) and the Python function disagree"))
    res.samples = [{"request": reqs[0], "response": resps[0][:200]}] if reqs else []
    return res


def s07_generated_crop(ctx):
    """translator validation: the REGENERATED crop_to_target_areas (compiled into gen_c07) vs the real function with a SCRIPTED gpd.clip"""
    import_fractopo()
    import geopandas as gpd
    from shapely.geometry import GeometryCollection, LineString, MultiLineString, Point, box

    import fractopo.general as fg
    from harness.common import parse_resp, rng_for

    res = StreamResult("S07-generated-crop", rule="regenerated crop_to_target_areas (Lean, compiled: type check, pre-filter, clip row by row, collection explode, type filter, regenerated "
                       "dissolve, minimum-length filter) vs the real function whose gpd.clip is scripted per row: nothing / long line / line below MINIMUM_LINE_LENGTH / point / "
                       "multi-line of 2-3 parts / multi-line with a short part / collection of line + point / of multi-line + point / of short line + point; rows outside "
                       "the areas' bounding box (never candidates); a multi-part INPUT row with and without allow_multilinestring_input; is_filtered on / off; every index "
                       "kind; compared: the multiset of (row data, piece) or the exception; non-trivial = a collection or multi-part clip result")
    if ctx.gen is None:
        res.note = "gen_c07 not built (a generated module is broken): skipped"
        res.skipped["generated_driver_not_built"] = 1
        return res
    rng = rng_for(ctx.seed, "S07gc")
    SCRIPTS = ["n", "l", "l", "s", "p", "m2", "m3", "ms", "c", "c", "cm", "cs"]

    def line(pid, short=False):
        return LineString([(float(pid), 0.0), (float(pid), 1e-19 if short else 1.0)])

    def scripted(uid, code):
        b = uid * 100
        return {"l": lambda: line(b), "s": lambda: line(b, True), "p": lambda: Point(float(b), 0.5),
                "m2": lambda: MultiLineString([line(b + 1), line(b + 2)]), "m3": lambda: MultiLineString([line(b + 1), line(b + 2), line(b + 3)]),
                "ms": lambda: MultiLineString([line(b + 1, True), line(b + 2)]), "c": lambda: GeometryCollection([line(b + 1), Point(float(b + 2), 0.5)]),
                "cm": lambda: GeometryCollection([MultiLineString([line(b + 11), line(b + 12)]), Point(float(b + 2), 0.5)]),
                "cs": lambda: GeometryCollection([line(b + 1, True), Point(float(b + 2), 0.5)])}[code]()

    cases, reqs = [], []
    for _ in range(budget(ctx.tier, 300, 5000)):
        n = rng.randint(1, 7)
        spec = []
        for u in range(n):
            inside = rng.random() < 0.85
            kind = 101 if rng.random() < 0.06 else 100
            spec.append((u, kind, rng.choice(SCRIPTS) if inside else "n", inside))
        filt, allow = rng.random() < 0.3, rng.random() < 0.5
        window = [u for u, _, _, inside in spec if inside or filt]
        cases.append((spec, filt, allow))
        reqs.append("gcrop rows=" + ";".join(f"{u}:{k}:{c}" for u, k, c, _ in spec) + " window=" + ",".join(str(u) for u in window) + f" filt={int(filt)} allow={int(allow)}")
    resps = ctx.gen.parallel(reqs)
    real_clip = gpd.clip
    for (spec, filt, allow), req, resp in zip(cases, reqs, resps):
        res.evaluations += 1
        geoms = []
        for u, kind, code, inside in spec:
            x = 5.0 + u if inside else 500.0 + u  # rows outside the areas' bounding box are no candidates of the pre-filter
            geoms.append(LineString([(x, 1.0), (x, 2.0)]) if kind == 100 else MultiLineString([[(x, 1.0), (x, 2.0)], [(x, 3.0), (x, 4.0)]]))
        n = len(spec)
        idx = rng.choice([list(range(n)), [7 * i + 3 for i in range(n)], [i // 2 for i in range(n)], [f"r{i}" for i in range(n)]])
        frame = gpd.GeoDataFrame({"uid": [u for u, _, _, _ in spec]}, geometry=geoms, index=idx)
        script = {u: c for u, _, c, _ in spec}

        def fake_clip(cand, areas_, script=script):
            keep = [script[u] != "n" for u in cand["uid"]]
            out = cand.loc[keep].copy()
            out["geometry"] = [scripted(u, script[u]) for u in out["uid"]]
            return out

        gpd.clip = fake_clip
        try:
            out = fg.crop_to_target_areas(frame, gpd.GeoDataFrame(geometry=[box(0, 0, 100, 10)]), is_filtered=filt, keep_column_data=True, allow_multilinestring_input=allow)
            want = "rows=" + ";".join(sorted(f"{u}:{int(round(g.coords[0][0]))}" for u, g in zip(out["uid"], out.geometry.values)))
        except (ValueError, TypeError) as e:
            want = "err=" + type(e).__name__
        finally:
            gpd.clip = real_clip
        r = resp.strip()
        got = ("rows=" + ";".join(sorted(x for x in r[5:].split(";") if x))) if r.startswith("rows=") else r
        res.nontrivial += int(any(c in ("m2", "m3", "ms", "c", "cm", "cs") for _, _, c, _ in spec))
        for _, _, c, _ in spec:
            res.distribution[c] = res.distribution.get(c, 0) + 1
        res.distribution["raises"] = res.distribution.get("raises", 0) + int(want.startswith("err="))
        if got != want:
            res.disagreements.append(Disagreement("S07-generated-crop", {"stream": "S07-generated-crop", "request": req, "index": [str(i) for i in idx]}, got, want, None,
                                                  "regenerated crop_to_target_areas (Lean) and the Python function (scripted clip) disagree"))
    res.samples = [{"request": reqs[0], "response": resps[0][:200]}] if reqs else []
    return res


STREAMS = [s07_crop, s07_network, s07_generated, s07_generated_crop]


def _rebuild(case):
    import geopandas as gpd
    from shapely.geometry import LineString, MultiPolygon, Polygon

    fl = lambda l: [(float(x), float(y)) for x, y in l]  # noqa: E731
    geoms = [LineString(fl(l)) for l in parse_lines(case["traces"])]
    areas = []
    for row in case["areas"].split("#"):
        pgs = []
        for pg in row.split("&"):
            rings = parse_lines(pg)
            pgs.append(Polygon(fl(rings[0]), [fl(r) for r in rings[1:]]))
        areas.append(pgs[0] if len(pgs) == 1 else MultiPolygon(pgs))
    m = len(geoms)
    mode = (case.get("meta") or {}).get("index")
    index = index_for(mode, m) if mode in ("default", "ints", "strings", "nonmono", "dup", "shuffled") else list(range(m))
    gdf = gpd.GeoDataFrame({"uid": case.get("uids", [f"u{i}" for i in range(m)]), "val": [i * 1.5 for i in range(m)]}, geometry=geoms, index=index)
    if case.get("z"):
        gdf = add_z(gdf)
    return gdf, areas


def replay(ctx, stream, case):
    if stream == "S07-generated":
        r = s07_generated(ctx)
        return r.disagreements[0] if r.disagreements else None
    if stream == "S07-generated-crop":
        r = s07_generated_crop(ctx)
        return r.disagreements[0] if r.disagreements else None
    import_fractopo()
    gdf, areas = _rebuild(case)
    req = f"clip areas={area_rows(areas)} traces={lines([xy(g) for g in gdf.geometry.values])}"
    res = StreamResult("replay")
    check_case(ctx, gdf, areas, ctx.driver.batch([req])[0], res, stream, case.get("meta", {"areas": "?", "index": "?"}), route=case.get("route", "function"))
    return res.disagreements[0] if res.disagreements else None


def replay_finding(ctx, k):
    import json

    from harness.common import VERIF

    case = json.loads((VERIF / k["witness"]).read_text())
    return replay(ctx, "S07-crop", case) is not None
