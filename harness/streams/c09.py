"""S09 — run_validation on frames of gadgets + special rows: direct property checks and composition
of the full run from per-validator isolated verdicts through the Lean orchestration model."""
from __future__ import annotations

import multiprocessing as mp

from harness.common import Disagreement, StreamResult, budget, dec, enc, import_fractopo, parse_resp, rng_for
from harness.valgen import T, area_for, kind_code, random_frame

F7_KEY = "F7:non-default-index-with-node-validators"
MINOR = ["SimpleGeometryValidator", "MultiJunctionValidator", "VNodeValidator", "MultipleCrosscutValidator", "UnderlappingSnapValidator",
         "TargetAreaSnapValidator", "StackedTracesValidator", "SharpCornerValidator"]
DOCUMENTED = {"NULL GEOMETRY", "GEOM TYPE MULTILINESTRING", "CUTS ITSELF", "MULTI JUNCTION", "V NODE", "MULTIPLE CROSSCUTS", "UNDERLAPPING SNAP",
              "OVERLAPPING SNAP", "TRACE UNDERLAPS TARGET AREA", "STACKED TRACES", "SHARP TURNS", "EMPTY TARGET AREA"}


def _strip_z(g):
    from shapely.geometry import LineString

    if g is not None and isinstance(g, LineString) and g.has_z:
        return LineString([c[:2] for c in g.coords])
    return g


def _geoms_equal(a, b):
    if a is None or b is None:
        return a is None and b is None
    if a.is_empty or b.is_empty:
        return a.is_empty and b.is_empty and a.geom_type == b.geom_type
    return a.geom_type == b.geom_type and a.equals_exact(b, 0.0) or (a.geom_type == b.geom_type and a.wkt == b.wkt)


def worker(arg):
    gdf, opts = arg
    import_fractopo()
    import geopandas as gpd
    from shapely.geometry import LineString, MultiLineString
    from shapely.ops import linemerge

    from fractopo.tval import trace_validators as tv
    from fractopo.tval.trace_validation import Validation

    area = area_for(gdf)
    if opts.get("area_far"):
        from shapely.geometry import box

        area = gpd.GeoDataFrame(geometry=[box(5000, 5000, 6000, 6000)])
    before = gdf.copy(deep=True)
    chosen_names = opts["chosen"]
    chosen = None if chosen_names is None else tuple(getattr(tv, n) for n in chosen_names)
    res = {"problems": [], "raised": None}
    try:
        out = Validation(gdf, area, "n", opts["allow_fix"], SNAP_THRESHOLD=T).run_validation(choose_validators=chosen, allow_empty_area=opts["allow_empty_area"])
    except Exception as e:
        res["raised"] = f"{type(e).__name__}: {str(e)[:160]}"
        out = None
    # caller's frames untouched
    same = before.index.equals(gdf.index) and list(before.columns) == list(gdf.columns)
    if same:
        for c in before.columns:
            if c == "geometry":
                same = same and all(_geoms_equal(a, b) for a, b in zip(before.geometry.values, gdf.geometry.values))
            else:
                same = same and list(before[c]) == list(gdf[c])
    if not same:
        res["problems"].append("the caller's frame was modified")
    kinds = [kind_code(g) for g in gdf.geometry.values]
    res["kinds"] = kinds
    # is the target area void of traces? (decided independently of fractopo)
    res["area_empty"] = not any(g is not None and not g.is_empty and any(g.intersects(a) for a in area.geometry.values) for g in gdf.geometry.values)
    if out is not None:
        col = "VALIDATION_ERRORS"
        if len(out) != len(gdf) or not out.index.equals(gdf.index):
            res["problems"].append(f"rows / index changed: {list(out.index)} vs {list(gdf.index)}")
        else:
            for c in gdf.columns:
                if c in ("geometry", col):
                    continue
                if c not in out.columns or list(out[c]) != list(gdf[c]):
                    res["problems"].append(f"attribute column {c!r} changed")
            if col not in out.columns:
                res["problems"].append("no error column")
            else:
                for e in out[col].values:
                    if not isinstance(e, tuple) or any(s not in DOCUMENTED for s in e) or len(set(e)) != len(e):
                        res["problems"].append(f"error cell is not a duplicate-free tuple of documented strings: {e!r}")
                        break
                res["errors"] = [list(e) for e in out[col].values]
            # geometry: unchanged, or the merged line of a mergeable multi-part row with fixing allowed
            geom_state = []
            for g_in, g_out, k in zip(gdf.geometry.values, out.geometry.values, kinds):
                g_in2 = _strip_z(g_in)
                if _geoms_equal(g_in2, g_out):
                    geom_state.append("same")
                elif k == 3 and opts["allow_fix"] and isinstance(g_out, LineString) and g_out.equals(linemerge(g_in)) and abs(g_out.length - g_in.length) < 1e-12:
                    geom_state.append("merged")
                else:
                    geom_state.append("CHANGED")
                    res["problems"].append(f"geometry changed: {None if g_in is None else g_in.wkt[:80]} -> {None if g_out is None else g_out.wkt[:80]}")
            res["geom_state"] = geom_state
    # isolated verdicts of every minor validator on the frame as it is in the second pass
    fixed = []
    fixer_runs = chosen_names is None or "GeomTypeValidator" in chosen_names  # the merge is GeomTypeValidator's fix_method
    for g, k in zip(gdf.geometry.values, kinds):
        g = _strip_z(g)
        fixed.append(linemerge(g) if (k == 3 and opts["allow_fix"] and fixer_runs) else g)
    fdf = gpd.GeoDataFrame(geometry=fixed)
    fails = []
    iso_err = None
    for name in MINOR:
        if chosen_names is not None and name not in chosen_names:
            continue
        try:
            o = Validation(fdf.copy(), area, "iso", False, SNAP_THRESHOLD=T).run_validation(choose_validators=(getattr(tv, name),))
            for i, e in enumerate(o["VALIDATION_ERRORS"].values):
                if e:
                    fails.append((i, name, e[0]))
        except Exception as e:
            iso_err = f"{name}: {type(e).__name__}: {str(e)[:100]}"
    res["fails"] = fails
    res["iso_err"] = iso_err
    return res


def request(kinds, opts, fails):
    f = "|".join(f"{i}:{n}:{enc(d)}" for i, n, d in fails)
    ch = "-" if opts["chosen"] is None else ";".join(opts["chosen"])
    return (f"validate kinds={','.join(map(str, kinds))} allowfix={int(opts['allow_fix'])} chosen={ch} allowempty={int(opts['allow_empty_area'])} "
            f"areaempty={int(bool(opts.get('_area_empty')))} fails={f}")


def judge(case, r, resp, res, stream):
    if r["raised"]:
        key = None
        if "continuous index" in r["raised"] and case["meta"]["index"] != "default":
            key = F7_KEY
        d = Disagreement(stream, dict(case, finding_key=key) if key else case, "completes", r["raised"], True, "run_validation raised")
        res.disagreements.append(d)
        return
    if r["problems"]:
        res.disagreements.append(Disagreement(stream, case, "rows, order, index, attributes kept; geometry only merged", r["problems"], True, "; ".join(r["problems"])[:400]))
        return
    if r.get("iso_err"):
        res.skipped["isolated_run_raised"] = res.skipped.get("isolated_run_raised", 0) + 1
        return
    m = parse_resp(resp)
    if m.get("outcome") == "emptyarea":
        rows = m.get("rows", "").split("|")
        model_errs = [[dec(x) for x in row.split(":", 1)[1].split(";") if x] for row in rows]
        res.distribution["empty_area_exit"] = res.distribution.get("empty_area_exit", 0) + 1
        if model_errs != r.get("errors") or any(st != "same" for st in r.get("geom_state", [])):
            res.disagreements.append(Disagreement(stream, case, model_errs, {"errors": r.get("errors"), "geometry": r.get("geom_state")}, True,
                                                  "empty target area with allow_empty_area=False: every row must carry exactly the documented EMPTY TARGET AREA error, geometry unchanged"))
        return
    if m.get("outcome") != "validated":
        res.disagreements.append(Disagreement(stream, case, resp, r.get("errors"), None, "model outcome differs"))
        return
    rows = m.get("rows", "").split("|")
    model_errs = [[dec(x) for x in row.split(":", 1)[1].split(";") if x] for row in rows]
    model_kind = [int(row.split(":", 1)[0]) for row in rows]
    if [sorted(e) for e in model_errs] != [sorted(e) for e in r["errors"]]:
        res.disagreements.append(Disagreement(stream, dict(case, request=request(r["kinds"], case["opts"], r["fails"])), model_errs, r["errors"], None,
                                              "errors of the full run differ from the composition of the isolated per-validator verdicts"))
        return
    for k_in, k_out, st in zip(r["kinds"], model_kind, r["geom_state"]):
        if (k_in == 3 and k_out == 0) != (st == "merged"):
            res.disagreements.append(Disagreement(stream, case, model_kind, r["geom_state"], True, "geometry replaced / not replaced against the model"))
            return


def s09_frames(ctx):
    import_fractopo()
    res = StreamResult("S09-frames", rule="frames of isolated gadgets (valid, every planted defect kind, None / empty, mergeable / reversed / nested / unmergeable / "
                       "branching multi-lines, Z values), shuffled rows, attribute columns (one named 'length'), stale error column, index default / permuted / "
                       "strings / offset x allow_fix x validator subsets x allow_empty_area; non-trivial = frame with >= 2 distinct error kinds or a multi-part row")
    rng = rng_for(ctx.seed, "S09")
    cases = []
    subsets = [None, None, None, ["GeomNullValidator", "GeomTypeValidator", "SimpleGeometryValidator", "SharpCornerValidator"],
               ["GeomTypeValidator", "UnderlappingSnapValidator", "StackedTracesValidator"], ["VNodeValidator", "MultiJunctionValidator"],
               ["GeomNullValidator", "GeomTypeValidator"]]
    for _ in range(budget(ctx.tier, 200, 3000)):
        gdf, meta = random_frame(rng)
        opts = {"allow_fix": rng.random() < 0.6, "chosen": rng.choice(subsets), "allow_empty_area": rng.random() < 0.7, "area_far": rng.random() < 0.12}
        cases.append((gdf, opts, meta))
    with mp.get_context("fork").Pool(16) as pool:
        results = pool.map(worker, [(g, o) for g, o, _ in cases], chunksize=2)
    for (g, o, _), r in zip(cases, results):
        o["_area_empty"] = r.get("area_empty", False)
    reqs = [request(r["kinds"], o, r["fails"]) for (g, o, _), r in zip(cases, results)]
    resps = ctx.driver.parallel(reqs)
    for (gdf, opts, meta), r, resp in zip(cases, results, resps):
        res.evaluations += 1
        case = {"stream": "S09-frames", "wkt": [None if g is None else g.wkt for g in gdf.geometry.values], "index": [str(i) for i in gdf.index],
                "opts": opts, "meta": meta}
        kinds_err = {e for row in (r.get("errors") or []) for e in row}
        if len(kinds_err) >= 2 or any(k in (2, 3) for k in r["kinds"]):
            res.nontrivial += 1
        for e in kinds_err:
            res.distribution[e] = res.distribution.get(e, 0) + 1
        res.distribution[f"index_{meta['index']}"] = res.distribution.get(f"index_{meta['index']}", 0) + 1
        if len(res.samples) < 2:
            res.samples.append({"gadgets": meta["gadgets"], "opts": opts, "request": reqs[res.evaluations - 1], "model": resp})
        judge(case, r, resp, res, "S09-frames")
    return res


def s09_generated(ctx):
    """translator validation: the REGENERATED `_validate` (compiled into gen_c09) vs the real static method on scripted validators"""
    import_fractopo()
    import itertools

    from shapely.geometry import LineString, MultiLineString, Point

    from fractopo.tval.trace_validation import Validation
    from fractopo.tval.trace_validators import MAJOR_ERRORS

    res = StreamResult("S09-generated", rule="regenerated Validation._validate (Lean, compiled) vs the real method on scripted validator classes: ALL combinations of "
                       "LINESTRING_ONLY x geometry kind (line, empty line, multi-line, point) x verdict x fix outcome (new geometry / None / NotImplementedError) x "
                       "allow_fix x ERROR (major / minor) x ERROR already present (exhaustive, 768 cases); regenerated is_empty_area (exact geometry) vs the real function on 1..3 area "
                       "rows with traces inside / crossing / far outside; non-trivial = the validator fails / the area is void of traces")
    if ctx.gen is None:
        res.note = "gen_c09 not built (a generated module is broken): skipped"
        res.skipped["generated_driver_not_built"] = 1
        return res
    geoms = {0: LineString([(0, 0), (1, 1)]), 1: LineString(), 2: MultiLineString([[(0, 0), (1, 1)], [(3, 3), (4, 5)]]), 3: Point(1, 1), 9: LineString([(0, 0), (2, 2)])}
    code_of = {id(v): k for k, v in geoms.items()}
    cases, reqs = [], []
    for ls_only, g, valid, fixk, allow_fix, err, present in itertools.product([True, False], [0, 1, 2, 3], [True, False], ["new", "none", "raise"], [True, False],
                                                                                  ["GEOM TYPE MULTILINESTRING", "CUTS ITSELF", "NULL GEOMETRY", "V NODE"], [True, False]):
        errs = (["SHARP TURNS", err] if present else ["SHARP TURNS"])
        cases.append((ls_only, g, valid, fixk, allow_fix, err, errs))
        isls = g in (0, 1)
        reqs.append(f"vstep lsonly={int(ls_only)} isls={int(isls)} isempty={int(g == 1)} valid={int(valid)} fix={'9' if fixk == 'new' else '-'} err={enc(err)} "
                    f"major={';'.join(enc(e) for e in MAJOR_ERRORS)} geom={g} errs={';'.join(enc(e) for e in errs)} allowfix={int(allow_fix)}")
    resps = ctx.gen.parallel(reqs)
    for (ls_only, g, valid, fixk, allow_fix, err, errs), req, resp in zip(cases, reqs, resps):
        res.evaluations += 1
        res.nontrivial += int(not valid)

        class V:
            LINESTRING_ONLY = ls_only
            ERROR = err

            @staticmethod
            def validation_method(geom, **_):
                return valid

            @staticmethod
            def fix_method(geom, **_):
                if fixk == "raise":
                    raise NotImplementedError
                return geoms[9] if fixk == "new" else None

        og, oe, oi = Validation._validate(geom=geoms[g], validator=V, current_errors=list(errs), allow_fix=allow_fix)
        want = (code_of[id(og)], list(oe), bool(oi))
        r = parse_resp(resp)
        got = (int(r["geom"]), [dec(x) for x in r.get("errs", "").split(";") if x], r["ignore"] == "1")
        if got != want:
            res.disagreements.append(Disagreement("S09-generated", {"stream": "S09-generated", "request": req}, got, want, None,
                                                  "regenerated _validate (Lean) and the Python method disagree: translator semantics wrong"))
    res.samples = [{"request": reqs[5], "response": resps[5]}]
    # the regenerated is_empty_area (exact geometry) vs the real function: 1..3 area rows, traces inside / crossing / outside
    import geopandas as gpd
    from shapely.geometry import box as _box

    from fractopo.general import is_empty_area
    from harness.common import area_rows, lines as wlines, rng_for

    rng = rng_for(ctx.seed, "S09e")
    ecases, ereqs = [], []
    for _ in range(budget(ctx.tier, 120, 2000)):
        centres = rng.sample([(0.0, 0.0), (40.0, 0.0), (0.0, 50.0), (-60.0, -60.0)], rng.randint(1, 3))
        areas = [_box(cx - 8, cy - 8, cx + 8, cy + 8) for cx, cy in centres]
        trs = []
        for _ in range(rng.randint(1, 4)):
            kind = rng.choice(["in", "cross", "out", "out"])
            cx, cy = rng.choice(centres)
            if kind == "in":
                trs.append([(cx - 2.0, cy + rng.randint(-20, 20) / 4), (cx + 3.0, cy + rng.randint(-20, 20) / 4)])
            elif kind == "cross":
                trs.append([(cx + 4.0, cy + 1.0), (cx + 14.0, cy + 2.5)])
            else:
                trs.append([(cx + 100.0 + rng.randint(0, 9), cy + 100.0), (cx + 130.0, cy + 101.0 + rng.randint(0, 9))])
        ecases.append((areas, trs))
        ereqs.append(f"gempty areas={area_rows(areas)} traces={wlines(trs)}")
    eresps = ctx.gen.parallel(ereqs)
    for (areas, trs), req, resp in zip(ecases, ereqs, eresps):
        res.evaluations += 1
        want = bool(is_empty_area(area=gpd.GeoDataFrame(geometry=areas), traces=gpd.GeoDataFrame(geometry=[LineString(t) for t in trs])))
        got = parse_resp(resp)["empty"] == "1"
        res.nontrivial += int(want)
        res.distribution["is_empty_area=%s" % want] = res.distribution.get("is_empty_area=%s" % want, 0) + 1
        if got != want:
            res.disagreements.append(Disagreement("S09-generated", {"stream": "S09-generated", "request": req}, got, want, None,
                                                  "regenerated is_empty_area (Lean) and the Python function disagree"))
    return res


def s09_cli(ctx):
    """the same contract through the command line: `fractopo tracevalidate` writes the validated frame; rows, order and attribute values (a text column with missing
    values included) must be those of the input file"""
    import_fractopo()
    import shutil
    import tempfile
    from pathlib import Path

    import geopandas as gpd
    from typer.testing import CliRunner

    from fractopo.cli import APP
    from harness.common import rng_for
    from harness.streams import c19

    res = StreamResult("S09-cli", rule="gadget frames (valid and planted-defect traces, a mergeable multi-part line) with an id, a numeric and a text attribute column that is MISSING in "
                       "some rows, written as GeoJSON / GPKG; `fractopo tracevalidate` with and without --allow-fix: the written file has the input's rows in order with the same "
                       "attribute values (missing stays missing) and one error column; non-trivial = all")
    rng = rng_for(ctx.seed, "S09cli")
    runner = CliRunner()
    tmp = Path(tempfile.mkdtemp(prefix="fv_c09_", dir="/var/tmp"))
    try:
        for k in range(budget(ctx.tier, 6, 40)):
            d = tmp / f"c{k}"
            d.mkdir()
            driver = "GeoJSON" if k % 2 else "GPKG"
            tp, ap, names = c19.build_inputs(rng, d, driver, k % 3 != 0, "v")
            op = d / f"out{c19.EXT[driver]}"
            fix = k % 2 == 0
            r = runner.invoke(APP, ["tracevalidate", str(tp), str(ap), "--output", str(op), "--no-summary", "--allow-fix" if fix else "--no-allow-fix"])
            res.evaluations += 1
            res.nontrivial += 1
            case = {"stream": "S09-cli", "driver": driver, "gadgets": names, "allow_fix": fix}
            if r.exit_code != 0 or not op.exists():
                res.disagreements.append(Disagreement("S09-cli", case, "a written file", f"exit {r.exit_code}: {str(r.exception)[:160]}", True, "tracevalidate failed"))
                continue
            src, out = gpd.read_file(tp), gpd.read_file(op)
            miss = lambda v: v is None or v != v  # noqa: E731
            problems = []
            if len(out) != len(src):
                problems.append(f"{len(out)} rows written for {len(src)} input rows")
            else:
                for col in ("uid", "val", "note"):
                    if col not in out.columns:
                        problems.append(f"attribute column {col} is missing from the output")
                    elif not all((miss(a) and miss(b)) or a == b for a, b in zip(out[col], src[col])):
                        problems.append(f"attribute column {col}: {list(out[col])[:4]} written for {list(src[col])[:4]}")
                extra = [c for c in out.columns if c not in src.columns and c not in ("VALIDATION_ERRORS", "VALIDATION")]
                if extra:
                    problems.append(f"columns {extra} beyond the input's and the error column")
            if problems:
                res.disagreements.append(Disagreement("S09-cli", case, "the input's rows and attribute values", problems, True, "; ".join(problems)[:400]))
        res.samples = [{"args": "tracevalidate <traces> <area> --output <out>"}]
    finally:
        shutil.rmtree(tmp, ignore_errors=True)
    return res


STREAMS = [s09_frames, s09_cli, s09_generated]


def _rebuild(case):
    import geopandas as gpd
    from shapely import wkt

    geoms = [None if w is None else wkt.loads(w) for w in case["wkt"]]
    n = len(geoms)
    idx = case["index"]
    try:
        idx = [int(i) for i in idx]
    except ValueError:
        pass
    data = {"tag": ["t"] * n, "num": [i * 0.5 for i in range(n)], "length": [float(i) for i in range(n)]}
    if case["meta"].get("stale"):
        data["VALIDATION_ERRORS"] = [("STALE ERROR",)] * n
    return gpd.GeoDataFrame(data, geometry=geoms, index=idx)


def replay(ctx, stream, case):
    import_fractopo()
    if stream == "S09-generated":
        r = s09_generated(ctx)
        return r.disagreements[0] if r.disagreements else None
    if stream == "S09-cli":
        r = s09_cli(ctx)
        return r.disagreements[0] if r.disagreements else None
    gdf = _rebuild(case)
    r = worker((gdf, case["opts"]))
    res = StreamResult("replay")
    case["opts"]["_area_empty"] = r.get("area_empty", False)
    judge(case, r, ctx.driver.batch([request(r["kinds"], case["opts"], r["fails"])])[0], res, stream)
    return res.disagreements[0] if res.disagreements else None


def replay_finding(ctx, k):
    import json

    from harness.common import VERIF

    case = json.loads((VERIF / k["witness"]).read_text())["case"]
    return replay(ctx, "S09-frames", case) is not None
