"""S06 — snap-threshold semantics: vertex insertion at function level, and perturbed abutments end to end."""
from __future__ import annotations

import math
from collections import Counter
from fractions import Fraction as F

from harness.common import Disagreement, StreamResult, area_rows, budget, import_fractopo, line, lines, parse_line, parse_resp, pt, rat, rng_for
from harness.mapgen import Arrangement, arr_request, to_float_lines, valid_maps
from harness.streams import c01


def s06_insert(ctx):
    import_fractopo()
    from shapely.geometry import LineString, Point

    from fractopo.branches_and_nodes import insert_point_to_linestring

    res = StreamResult("S06-insert", rule="random polylines (2..6 vertices, incl. hairpins and very short / very long segments) and points within the threshold of a "
                       "segment interior, of a vertex, of the first / last vertex: insert_point_to_linestring vs the exact model; "
                       "non-trivial = the nearest vertex of the whole polyline is NOT an end of the closest segment, or a vertex is replaced")
    rng = rng_for(ctx.seed, "S06i")
    cases = []
    for _ in range(budget(ctx.tier, 500, 12000)):
        t = rng.choice([0.001, 0.01, 0.1])
        k = rng.randint(2, 6)
        pts = [(rng.randint(-64, 64) / 4, rng.randint(-64, 64) / 4)]
        for _ in range(k - 1):
            step = rng.choice([0.25, 1.0, 8.0, 40.0])
            pts.append((pts[-1][0] + rng.randint(-16, 16) / 4 * step, pts[-1][1] + rng.randint(-16, 16) / 4 * step))
        if len(set(pts)) < len(pts):
            continue
        if rng.random() < 0.2:  # hairpin: a far vertex that is nearest to the point but not on the closest segment
            pts = [(0.0, 0.0), (100.0, 0.0), (100.0, 100.0), (5.0, 3.0), (5.0, 200.0)]
            p = (5.0 + rng.uniform(-1, 1), -rng.uniform(0.1, 0.9) * t)
        else:
            j = rng.randrange(len(pts) - 1)
            (ax, ay), (bx, by) = pts[j], pts[j + 1]
            u = rng.choice([rng.uniform(0.05, 0.95), rng.uniform(0.0, 0.002), rng.uniform(0.998, 1.0)])
            L = math.hypot(bx - ax, by - ay)
            nx, ny = -(by - ay) / L, (bx - ax) / L
            g = rng.uniform(-0.9, 0.9) * t
            p = (ax + u * (bx - ax) + nx * g, ay + u * (by - ay) + ny * g)
        cases.append((pts, p, t))
    resps = ctx.driver.parallel([f"insertpt t={rat(t)} line={line(pts)} pt={pt(p)}" for pts, p, t in cases])
    for (pts, p, t), resp in zip(cases, resps):
        res.evaluations += 1
        m = parse_resp(resp)
        if m.get("crisp") != "1":
            res.skipped["non_crisp"] = res.skipped.get("non_crisp", 0) + 1
            continue
        model = [(float(x), float(y)) for x, y in parse_line(m["line"])]
        try:
            got = [c[:2] for c in insert_point_to_linestring(LineString(pts), Point(p), t).coords]
        except Exception as e:
            got = f"{type(e).__name__}: {str(e)[:100]}"
        nearest = min(range(len(pts)), key=lambda i: math.hypot(pts[i][0] - p[0], pts[i][1] - p[1]))
        seg = min(range(len(pts) - 1), key=lambda i: LineString([pts[i], pts[i + 1]]).distance(Point(p)))
        if nearest not in (seg, seg + 1) or len(model) == len(pts):
            res.nontrivial += 1
        res.distribution["replaced"] = res.distribution.get("replaced", 0) + int(len(model) == len(pts))
        if got != model:
            res.disagreements.append(Disagreement("S06-insert", {"stream": "S06-insert", "line": pts, "pt": p, "t": t}, model, got, True,
                                                  "the new vertex is not where the model puts it (between the ends of the closest segment / replacing its near end)"))
    res.samples = [{"line": cases[0][0], "pt": cases[0][1], "t": cases[0][2], "model": resps[0]}]
    return res


def perturb(traces, ar, rng, t, side):
    """move abutting trace ends by a gap; returns (float traces, list of moved ends) or None"""
    fl = [[(float(x), float(y)) for x, y in l] for l in traces]
    moved = []
    for (p, cls, thr, ending) in ar.xy:
        if cls != "Y" or ending is None:
            continue
        i = ar.source[ending]
        l = traces[i]
        which = 0 if l[0] == p else -1 if l[-1] == p else None
        if which is None or rng.random() < 0.3:
            continue
        a = fl[i][which]
        b = fl[i][1 if which == 0 else -2]
        dx, dy = b[0] - a[0], b[1] - a[1]
        L = math.hypot(dx, dy)
        if side == "connected":
            g = rng.uniform(-0.9, 0.9) * t
            if rng.random() < 0.7:
                q = (a[0] + dx / L * g, a[1] + dy / L * g)  # along: g > 0 undershoot, g < 0 overshoot
            else:
                q = (a[0] - dy / L * g + dx / L * abs(g) * 0.3, a[1] + dx / L * g + dy / L * abs(g) * 0.3)
        else:
            g = rng.uniform(1.1, 40.0) * t
            q = (a[0] + dx / L * g, a[1] + dy / L * g)  # undershoot only
        fl[i][which] = q
        moved.append({"trace": i, "end": which, "gap_over_t": g / t, "contact": [float(p[0]), float(p[1])]})
    return (fl, moved) if moved else None


def s06_perturbed(ctx):
    import_fractopo()
    res = StreamResult("S06-perturbed", rule="valid maps (Lean oracle) x random subsets of their abutments moved along / across by gaps in [-0.9, 0.9] x snap (must give the "
                       "topology of the exactly touching map, node at the contact within snap) or [1.1, 40] x snap undershoot (must give the exact arrangement of the "
                       "perturbed map: free I-node, target not split); thresholds 1e-4..1e-1 relative; both entry points; non-trivial = every case")
    rng = rng_for(ctx.seed, "S06p")
    per = budget(ctx.tier, 14, 300)
    for unit, off, t in [(F(1), F(0), 0.01), (F(1), F(0), 0.1), (F(1, 8), F(1000), 0.001), (F(1), F(10**6), 0.01)]:
        maps, _ = valid_maps(ctx, rng, per, F(t), unit=unit, off=off, area_kinds=("box", "circle"), structured=0.4)
        for traces, area, kind, ar in maps:
            for side in ("connected", "connected", "unconnected"):
                pr = perturb(traces, ar, rng, t, side)
                if pr is None:
                    continue
                fl, moved = pr
                case = {"stream": "S06-perturbed", "t": t, "side": side, "traces": fl, "areas": area_rows([area]), "moved": moved, "exact_traces": lines(traces)}
                if side == "connected":
                    exp_nodes = Counter(c for _, c in ar.nodes)
                    exp_br = Counter(l for l, _, _ in ar.branches)
                    contacts = [m["contact"] for m in moved]
                else:
                    ar2 = Arrangement(ctx.driver.batch([arr_request([[(F(x), F(y)) for x, y in l] for l in fl], [area], F(t), k="21/20")])[0])
                    if not ar2.valid:
                        res.skipped["perturbed_map_not_valid"] = res.skipped.get("perturbed_map_not_valid", 0) + 1
                        continue
                    exp_nodes = Counter(c for _, c in ar2.nodes)
                    exp_br = Counter(l for l, _, _ in ar2.branches)
                    contacts = []
                res.evaluations += 1
                res.nontrivial += 1
                res.distribution[side] = res.distribution.get(side, 0) + 1
                for route in ("direct", "network"):
                    try:
                        nodes, branches = c01.impl_topology([[(F(x), F(y)) for x, y in l] for l in fl], area, t, route)
                    except Exception as e:
                        res.disagreements.append(Disagreement("S06-perturbed", dict(case, route=route), dict(exp_nodes), f"{type(e).__name__}: {str(e)[:160]}", True, "extraction raised"))
                        break
                    got_nodes = Counter(c for _, c in nodes)
                    got_br = Counter(l for l, _, _ in branches)
                    bad = got_nodes != exp_nodes or got_br != exp_br
                    if not bad:
                        for cx, cy in contacts:  # the two traces share the node's coordinates near the original contact
                            if not any(c == "Y" and math.hypot(p[0] - cx, p[1] - cy) <= 1.5 * t for p, c in nodes):
                                bad = True
                    if bad:
                        res.disagreements.append(Disagreement("S06-perturbed", dict(case, route=route), {"nodes": dict(exp_nodes), "branches": dict(exp_br)},
                                                              {"nodes": dict(got_nodes), "branches": dict(got_br)}, True,
                                                              "perturbed abutment: topology differs from the exactly-touching map" if side == "connected" else
                                                              "end beyond the threshold: topology differs from the exact arrangement of the perturbed map"))
                        break
    res.samples = [{"sides": ["connected", "unconnected"], "gaps": "[-0.9,0.9] t / [1.1,40] t"}]
    return res


STREAMS = [s06_insert, s06_perturbed]


def replay(ctx, stream, case):
    import_fractopo()
    if stream == "S06-insert":
        from shapely.geometry import LineString, Point

        from fractopo.branches_and_nodes import insert_point_to_linestring

        pts, p, t = [tuple(x) for x in case["line"]], tuple(case["pt"]), case["t"]
        m = parse_resp(ctx.driver.batch([f"insertpt t={rat(t)} line={line(pts)} pt={pt(p)}"])[0])
        model = [(float(x), float(y)) for x, y in parse_line(m["line"])]
        got = [c[:2] for c in insert_point_to_linestring(LineString(pts), Point(p), t).coords]
        return None if got == model else Disagreement(stream, case, model, got, True)
    r = s06_perturbed(ctx)
    return r.disagreements[0] if r.disagreements else None
