"""S06 — snap-threshold semantics: vertex insertion at function level, and perturbed abutments end to end."""
from __future__ import annotations

import math
from collections import Counter
from fractions import Fraction as F

from harness.common import Disagreement, StreamResult, area_rows, budget, import_fractopo, jsonable, line, lines, parse_line, parse_resp, pt, rat, rng_for
from harness.mapgen import Arrangement, arr_request, to_float_lines, valid_maps
from harness.streams import c01


def insert_cases(rng, n):
    cases = []
    for _ in range(n):
        t = rng.choice([0.001, 0.01, 0.1])
        k = rng.randint(2, 6)
        pts = [(rng.randint(-64, 64) / 4, rng.randint(-64, 64) / 4)]
        for _ in range(k - 1):
            step = rng.choice([0.25, 1.0, 8.0, 40.0])
            pts.append((pts[-1][0] + rng.randint(-16, 16) / 4 * step, pts[-1][1] + rng.randint(-16, 16) / 4 * step))
        if len(set(pts)) < len(pts):
            continue
        if rng.random() < 0.2:  # hairpin: a far vertex that is nearest to the point but not on the closest segment
            pts = [(0.0, 0.0), (100.0, 0.0), (100.0, 100.0), (5.0, 3.0), (5.0, 200.0)]
            p = (5.0 + rng.uniform(-1, 1), -rng.uniform(0.1, 0.9) * t)
        else:
            j = rng.randrange(len(pts) - 1)
            (ax, ay), (bx, by) = pts[j], pts[j + 1]
            u = rng.choice([rng.uniform(0.05, 0.95), rng.uniform(0.0, 0.002), rng.uniform(0.998, 1.0)])
            L = math.hypot(bx - ax, by - ay)
            nx, ny = -(by - ay) / L, (bx - ax) / L
            g = rng.uniform(-0.9, 0.9) * t
            p = (ax + u * (bx - ax) + nx * g, ay + u * (by - ay) + ny * g)
        cases.append((pts, p, t))
    return cases


def s06_insert(ctx):
    import_fractopo()
    from shapely.geometry import LineString, Point

    from fractopo.branches_and_nodes import insert_point_to_linestring

    res = StreamResult("S06-insert", rule="random polylines (2..6 vertices, incl. hairpins and very short / very long segments) and points within the threshold of a "
                       "segment interior, of a vertex, of the first / last vertex: insert_point_to_linestring vs the exact model; "
                       "non-trivial = the nearest vertex of the whole polyline is NOT an end of the closest segment, or a vertex is replaced")
    rng = rng_for(ctx.seed, "S06i")
    cases = insert_cases(rng, budget(ctx.tier, 500, 12000))
    resps = ctx.driver.parallel([f"insertpt t={rat(t)} line={line(pts)} pt={pt(p)}" for pts, p, t in cases])
    for (pts, p, t), resp in zip(cases, resps):
        res.evaluations += 1
        m = parse_resp(resp)
        if m.get("crisp") != "1":
            res.skipped["non_crisp"] = res.skipped.get("non_crisp", 0) + 1
            continue
        model = [(float(x), float(y)) for x, y in parse_line(m["line"])]
        try:
            got = [c[:2] for c in insert_point_to_linestring(LineString(pts), Point(p), t).coords]
        except Exception as e:
            got = f"{type(e).__name__}: {str(e)[:100]}"
        nearest = min(range(len(pts)), key=lambda i: math.hypot(pts[i][0] - p[0], pts[i][1] - p[1]))
        seg = min(range(len(pts) - 1), key=lambda i: LineString([pts[i], pts[i + 1]]).distance(Point(p)))
        if nearest not in (seg, seg + 1) or len(model) == len(pts):
            res.nontrivial += 1
        res.distribution["replaced"] = res.distribution.get("replaced", 0) + int(len(model) == len(pts))
        if got != model:
            res.disagreements.append(Disagreement("S06-insert", {"stream": "S06-insert", "line": pts, "pt": p, "t": t}, model, got, True,
                                                  "the new vertex is not where the model puts it (between the ends of the closest segment / replacing its near end)"))
    res.samples = [{"line": cases[0][0], "pt": cases[0][1], "t": cases[0][2], "model": resps[0]}]
    return res


def perturb(traces, ar, rng, t, side):
    """move abutting trace ends by a gap; returns (float traces, list of moved ends) or None"""
    fl = [[(float(x), float(y)) for x, y in l] for l in traces]
    moved = []
    for (p, cls, thr, ending) in ar.xy:
        if cls != "Y" or ending is None:
            continue
        i = ar.source[ending]
        l = traces[i]
        which = 0 if l[0] == p else -1 if l[-1] == p else None
        if which is None or rng.random() < 0.3:
            continue
        a = fl[i][which]
        b = fl[i][1 if which == 0 else -2]
        dx, dy = b[0] - a[0], b[1] - a[1]
        L = math.hypot(dx, dy)
        if side == "connected":
            g = rng.uniform(-0.9, 0.9) * t
            if rng.random() < 0.7:
                q = (a[0] + dx / L * g, a[1] + dy / L * g)  # along: g > 0 undershoot, g < 0 overshoot
            else:
                q = (a[0] - dy / L * g + dx / L * abs(g) * 0.3, a[1] + dx / L * g + dy / L * abs(g) * 0.3)
        else:
            g = rng.uniform(1.1, 40.0) * t
            q = (a[0] + dx / L * g, a[1] + dy / L * g)  # undershoot only
        fl[i][which] = q
        moved.append({"trace": i, "end": which, "gap_over_t": g / t, "contact": [float(p[0]), float(p[1])]})
    return (fl, moved) if moved else None


def s06_perturbed(ctx):
    import_fractopo()
    res = StreamResult("S06-perturbed", rule="valid maps (Lean oracle) x random subsets of their abutments moved along / across by gaps in [-0.9, 0.9] x snap (must give the "
                       "topology of the exactly touching map, node at the contact within snap) or [1.1, 40] x snap undershoot (must give the exact arrangement of the "
                       "perturbed map: free I-node, target not split); thresholds 1e-4..1e-1 relative; both entry points; non-trivial = every case")
    rng = rng_for(ctx.seed, "S06p")
    per = budget(ctx.tier, 14, 300)
    for unit, off, t in [(F(1), F(0), 0.01), (F(1), F(0), 0.1), (F(1, 8), F(1000), 0.001), (F(1), F(10**6), 0.01)]:
        maps, _ = valid_maps(ctx, rng, per, F(t), unit=unit, off=off, area_kinds=("box", "circle"), structured=0.4)
        for traces, area, kind, ar in maps:
            for side in ("connected", "connected", "unconnected"):
                pr = perturb(traces, ar, rng, t, side)
                if pr is None:
                    continue
                fl, moved = pr
                # moving an end ACROSS its trace also shifts that trace under the ends it hosts: keep the case only if every moved
                # end is still where the case says it is, measured in the perturbed map itself
                from shapely.geometry import LineString as _LS, Point as _Pt

                def _gap(mv):
                    e = fl[mv["trace"]][0 if mv["end"] == 0 else -1]
                    return min(_LS(l).distance(_Pt(e)) for j, l in enumerate(fl) if j != mv["trace"])

                if side == "connected" and any(_gap(mv) > 0.95 * t for mv in moved) or side != "connected" and any(_gap(mv) < 1.05 * t for mv in moved):
                    res.skipped["perturbations_interact"] = res.skipped.get("perturbations_interact", 0) + 1
                    continue
                case = {"stream": "S06-perturbed", "t": t, "side": side, "traces": fl, "areas": area_rows([area]), "moved": moved, "exact_traces": lines(traces)}
                if side == "connected":
                    exp_nodes = Counter(c for _, c in ar.nodes)
                    exp_br = Counter(l for l, _, _ in ar.branches)
                    contacts = [m["contact"] for m in moved]
                else:
                    ar2 = Arrangement(ctx.driver.batch([arr_request([[(F(x), F(y)) for x, y in l] for l in fl], [area], F(t), k="21/20")])[0])
                    if not ar2.valid:
                        res.skipped["perturbed_map_not_valid"] = res.skipped.get("perturbed_map_not_valid", 0) + 1
                        continue
                    exp_nodes = Counter(c for _, c in ar2.nodes)
                    exp_br = Counter(l for l, _, _ in ar2.branches)
                    contacts = []
                res.evaluations += 1
                res.nontrivial += 1
                res.distribution[side] = res.distribution.get(side, 0) + 1
                if ctx.gen is not None:
                    # translator validation end to end where snapping ACTS: the regenerated branches_and_nodes (gen_c06 `gpipe`) on the perturbed map
                    gresp = ctx.gen.batch([f"gpipe t={rat(F(t))} areas={area_rows([area])} traces={lines([[(F(x), F(y)) for x, y in l] for l in fl])} clipped=0"])[0]
                    res.distribution["regenerated_pipeline_compared"] = res.distribution.get("regenerated_pipeline_compared", 0) + 1
                    if gresp.startswith("err") or gresp.startswith("error"):
                        gn, gb = gresp.strip(), None
                    else:
                        ga = Arrangement("valid=1 wellformed=1 " + gresp.strip())
                        gn, gb = Counter(c for _, c in ga.nodes), Counter(l for l, _, _ in ga.branches)
                    if gn != exp_nodes or gb != exp_br:
                        res.disagreements.append(Disagreement("S06-perturbed", dict(case, route="regenerated (Lean)"), {"nodes": dict(exp_nodes), "branches": dict(exp_br)},
                                                              gresp[:300], None, "the regenerated branches_and_nodes (Lean) gives another topology on the perturbed map"))
                for route in ("direct", "network"):
                    try:
                        nodes, branches = c01.impl_topology([[(F(x), F(y)) for x, y in l] for l in fl], area, t, route)
                    except Exception as e:
                        res.disagreements.append(Disagreement("S06-perturbed", dict(case, route=route), dict(exp_nodes), f"{type(e).__name__}: {str(e)[:160]}", True, "extraction raised"))
                        break
                    got_nodes = Counter(c for _, c in nodes)
                    got_br = Counter(l for l, _, _ in branches)
                    bad = got_nodes != exp_nodes or got_br != exp_br
                    if not bad:
                        for cx, cy in contacts:  # the two traces share the node's coordinates near the original contact
                            if not any(c == "Y" and math.hypot(p[0] - cx, p[1] - cy) <= 1.5 * t for p, c in nodes):
                                bad = True
                    if bad:
                        res.disagreements.append(Disagreement("S06-perturbed", dict(case, route=route), {"nodes": dict(exp_nodes), "branches": dict(exp_br)},
                                                              {"nodes": dict(got_nodes), "branches": dict(got_br)}, True,
                                                              "perturbed abutment: topology differs from the exactly-touching map" if side == "connected" else
                                                              "end beyond the threshold: topology differs from the exact arrangement of the perturbed map"))
                        break
    res.samples = [{"sides": ["connected", "unconnected"], "gaps": "[-0.9,0.9] t / [1.1,40] t"}]
    return res


def _exact(fl):
    return [[(F(x), F(y)) for x, y in l] for l in fl]


def _near_vertex_extras(rng, fl, t):
    """extra two-vertex traces whose end lies close to an INTERIOR vertex of an existing trace (simple_snap territory),
    or two ends close to one another on the same host segment (sequential insertion)"""
    hosts = [l for l in fl if len(l) >= 3]
    out = []
    if hosts and rng.random() < 0.7:
        h = rng.choice(hosts)
        v = h[rng.randrange(1, len(h) - 1)]
        ang = rng.uniform(0, 2 * math.pi)
        g = rng.choice([rng.uniform(0.05, 0.9), rng.uniform(1.1, 3.0), 0.0]) * t
        e = (v[0] + math.cos(ang) * g, v[1] + math.sin(ang) * g)
        far = (v[0] + math.cos(ang) * 37.0, v[1] + math.sin(ang) * 37.0)
        out.append([far, e] if rng.random() < 0.5 else [e, far])
    if fl and rng.random() < 0.5:
        h = rng.choice(fl)
        j = rng.randrange(len(h) - 1)
        (ax, ay), (bx, by) = h[j], h[j + 1]
        L = math.hypot(bx - ax, by - ay)
        if L > 0:
            nx, ny = -(by - ay) / L, (bx - ax) / L
            u0 = rng.uniform(0.2, 0.8)
            for du in (0.0, rng.choice([0.5, 3.0, 30.0]) * t / L):
                u = u0 + du
                g = rng.uniform(-0.9, 0.9) * t
                e = (ax + u * (bx - ax) + nx * g, ay + u * (by - ay) + ny * g)
                far = (e[0] + nx * 29.0 + (bx - ax) / L * rng.uniform(-3, 3), e[1] + ny * 29.0 + (by - ay) / L * rng.uniform(-3, 3))
                out.append([e, far])
    return out


def _boundary_extras(rng, area, t):
    """a trace end within the threshold of the area boundary that is also within the threshold of another trace
    (must NOT be snapped to that trace, on any pass), plus an ordinary underlap elsewhere so that a second pass happens"""
    from shapely.geometry import Point

    minx, miny, maxx, maxy = area.bounds
    ring = list(area.exterior.coords)
    j = rng.randrange(len(ring) - 1)
    (ax, ay), (bx, by) = ring[j], ring[j + 1]
    L = math.hypot(bx - ax, by - ay)
    if L < 1e-9:
        return []
    u = rng.uniform(0.3, 0.7)
    nx, ny = -(by - ay) / L, (bx - ax) / L
    cx, cy = (minx + maxx) / 2, (miny + maxy) / 2
    if (cx - ax) * nx + (cy - ay) * ny < 0:
        nx, ny = -nx, -ny  # inward normal
    tx, ty = (bx - ax) / L, (by - ay) / L
    gb = rng.uniform(0.0, 0.8) * t            # distance of the end from the boundary (inside)
    e = (ax + u * (bx - ax) + nx * gb, ay + u * (by - ay) + ny * gb)
    if not area.contains(Point(e)) and gb > 0:
        return []
    d = rng.uniform(20.0, 40.0)
    a_tr = [(e[0] + nx * d + tx * 3.0, e[1] + ny * d + ty * 3.0), e]
    # another trace passing the end at a distance < t (not touching), roughly parallel to the inward normal
    go = rng.uniform(0.2, 0.8) * t
    s0 = (e[0] + tx * go - nx * 0.0, e[1] + ty * go - ny * 0.0)
    b_tr = [(s0[0] + nx * (gb + 5 * t) * -0.0 + nx * 0.0, s0[1]), (s0[0] + nx * d - tx * 7.0, s0[1] + ny * d - ty * 7.0)]
    b_tr = [s0, (s0[0] + nx * d - tx * 7.0, s0[1] + ny * d - ty * 7.0)] if rng.random() < 0.5 else [(s0[0] - nx * 0.3 * t, s0[1] - ny * 0.3 * t), (s0[0] + nx * d - tx * 7.0, s0[1] + ny * d - ty * 7.0)]
    return [a_tr, b_tr]


def impl_snap_pass(fl, area, t):
    from shapely.geometry import LineString, MultiPolygon

    from fractopo.branches_and_nodes import snap_traces

    polys = list(area.geoms) if isinstance(area, MultiPolygon) else [area]
    try:
        tr, ch = snap_traces([LineString(l) for l in fl], t, areas=polys)
    except Exception as e:  # noqa: BLE001
        return {"err": type(e).__name__}
    return {"traces": [[(F(x), F(y)) for x, y in l.coords] for l in tr], "changed": bool(ch)}


def impl_snap_loop(fl, area, t, allowed=10):
    """run the real branches_and_nodes with a recorder around snap_traces: passes made and the final traces"""
    import geopandas as gpd
    from shapely.geometry import LineString

    import fractopo.branches_and_nodes as ban

    rec = []
    orig = ban.snap_traces

    def recorder(traces, snap_threshold, areas=None, final_allowed_loop=False):
        out = orig(traces, snap_threshold, areas=areas, final_allowed_loop=final_allowed_loop)
        rec.append(out)
        return out

    ban.snap_traces = recorder
    try:
        ban.branches_and_nodes(gpd.GeoSeries([LineString(l) for l in fl]), gpd.GeoSeries([area]), t, allowed_loops=allowed, already_clipped=True)
        err = None
    except RecursionError:
        err = "RecursionError"
    except Exception as e:  # noqa: BLE001
        err = type(e).__name__
    finally:
        ban.snap_traces = orig
    if err == "RecursionError" or (err is None and rec):
        return {"err": err, "loops": len(rec) - 1, "traces": [[(F(x), F(y)) for x, y in l.coords] for l in rec[-1][0]] if rec else []}
    return {"err": err, "loops": len(rec) - 1, "traces": None}


def snap_property_oracle(fl, final, area, t):
    """C06's own words decided on the implementation's snapping result: an end within the threshold of the area boundary
    is not snapped to traces; an end farther than the threshold from every other trace splits nothing.
    `final`: traces after the real snapping stage (exact Fractions). Returns a reason or None."""
    from shapely.geometry import LineString, Point

    if final is None or len(final) != len(fl):
        return None
    ls = [LineString(l) for l in fl]
    for i, l in enumerate(fl):
        for e in (l[0], l[-1]):
            ex = (F(e[0]), F(e[1]))
            pe = Point(e)
            db = area.boundary.distance(pe)
            others = [ls[j].distance(pe) for j in range(len(fl)) if j != i]
            for j in range(len(fl)):
                if j == i:
                    continue
                was = ex in [(F(x), F(y)) for x, y in fl[j]]
                now = ex in [tuple(p) for p in final[j]]
                if now and not was:
                    if db < 0.9 * t:
                        return f"end {e} of trace {i} is {db:.3g} < snap from the area boundary but was inserted into trace {j}"
                    if others and min(others) > 1.1 * t:
                        return f"end {e} of trace {i} is farther than the threshold from every other trace but was inserted into trace {j}"
    return None


def parse_pass(resp):
    m = parse_resp(resp)
    if "err" in m:
        return {"err": m["err"]}, m.get("crisp") == "1", m
    from harness.common import parse_lines

    d = {"traces": parse_lines(m.get("traces", ""))}
    if "changed" in m:
        d["changed"] = m["changed"] == "1"
    if "loops" in m:
        d["loops"] = int(m["loops"])
    return d, m.get("crisp") == "1", m


def _snap_cases(ctx, rng, per):
    cases = []
    for unit, off, t in [(F(1), F(0), 0.01), (F(1), F(0), 0.1), (F(1, 8), F(1000), 0.001), (F(1), F(10**6), 0.01)]:
        maps, _ = valid_maps(ctx, rng, per, F(t), unit=unit, off=off, area_kinds=("box", "circle", "concave"), structured=0.4)
        for traces, area, kind, ar in maps:
            base = [[(float(x), float(y)) for x, y in l] for l in traces]
            for side in ("connected", "unconnected", "none"):
                if side == "none":
                    fl, moved = [list(l) for l in base], []
                else:
                    pr = perturb(traces, ar, rng, t, side)
                    if pr is None:
                        continue
                    fl, moved = pr
                extras = _near_vertex_extras(rng, fl, t)
                if rng.random() < 0.5:
                    extras += _boundary_extras(rng, area, t)
                fl = fl + extras
                rng.shuffle(fl)
                cases.append({"stream": "S06-snappass", "t": t, "side": side, "traces": fl, "area_wkt": area.wkt, "extras": len(extras), "moved": len(moved)})
    return cases


def _compare_snap(ctx, case, resp_pass, resp_loop):
    """returns (Disagreement or None, tags)"""
    from shapely import wkt as _wkt

    area = _wkt.loads(case["area_wkt"])
    fl = [[tuple(p) for p in l] for l in case["traces"]]
    t = case["t"]
    tags = []
    mp, crisp_p, _mp = parse_pass(resp_pass)
    ml, crisp_l, rl = parse_pass(resp_loop)
    ip = impl_snap_pass(fl, area, t)
    if not crisp_p:
        tags.append("pass_non_crisp")
    elif _mp.get("ordfree") != "1":
        tags.append("pass_order_dependent_non_crisp")
    else:
        if "err" in mp:
            tags.append("pass_err")
        elif mp.get("changed"):
            tags.append("pass_changed")
            ex = _exact(fl)
            if any(len(a) == len(b) and a != b for a, b in zip(ex, mp["traces"])):
                tags.append("vertex_moved")
            if any(len(a) != len(b) for a, b in zip(ex, mp["traces"])):
                tags.append("vertex_inserted")
        if mp != ip:
            why = snap_property_oracle(fl, ip.get("traces"), area, t)
            return Disagreement("S06-snappass", case, jsonable(mp), jsonable(ip), True if why else None,
                                why or "one pass of snap_traces differs from the exact model (same coordinates expected: snapping only copies existing coordinates)"), tags
    if not crisp_l or rl.get("ordfree") != "1":
        tags.append("loop_non_crisp" if not crisp_l else "loop_order_dependent_non_crisp")
        return None, tags
    il = impl_snap_loop(fl, area, t)
    if "err" in ml:
        if il["err"] != ml["err"]:
            return Disagreement("S06-snappass", case, jsonable(ml), jsonable(il), None, "snapping loop: model raises, implementation does not (or differently)"), tags
        tags.append("loop_err_" + ml["err"])
        return None, tags
    tags.append(f"loops={ml['loops']}")
    if rl.get("quiet") == "1":
        tags.append("quiet")
    if il["err"] is not None and il["traces"] is None:
        # extraction failed after the snapping stage for another reason (not the subject here)
        tags.append("impl_later_error")
        return None, tags
    if il["err"] is not None or il["loops"] != ml["loops"] or il["traces"] != ml["traces"]:
        why = snap_property_oracle(fl, il["traces"], area, t)
        return Disagreement("S06-snappass", case, jsonable(ml), jsonable(il), True if why else None,
                            why or "repeat-until-stable snapping stage differs from the exact model (passes made / final traces)"), tags
    return None, tags


def s06_snappass(ctx):
    import_fractopo()
    from shapely import wkt as _wkt

    res = StreamResult("S06-snappass", rule="valid maps (Lean oracle) with abutments moved by [-0.9,0.9]t / [1.1,40]t, extra ends placed 0..3t from INTERIOR vertices of other "
                       "traces and pairs of ends 0.5..30t apart on one host segment; (a) one real snap_traces pass vs Model/SnapLoop.lean coordinate for coordinate, "
                       "(b) the real repeat-until-stable loop inside branches_and_nodes (recorder around snap_traces) vs the model loop: passes and final traces; "
                       "compared when the model result is stable under thresholds x (1 +- 1e-6); non-trivial = the pass changes something")
    rng = rng_for(ctx.seed, "S06s")
    cases = _snap_cases(ctx, rng, budget(ctx.tier, 10, 200))
    reqs = []
    for c in cases:
        area = _wkt.loads(c["area_wkt"])
        ex = _exact(c["traces"])
        reqs.append(f"snappass t={rat(c['t'])} areas={area_rows([area])} traces={lines(ex)}")
        reqs.append(f"snaploop t={rat(c['t'])} allowed=10 areas={area_rows([area])} traces={lines(ex)}")
    resps = ctx.driver.parallel(reqs)
    # translator validation: the REGENERATED snap_traces (gen_c06) must give the model's pass on the same input
    gresps = ctx.gen.parallel(["g" + r_ for r_ in reqs[0::2]]) if ctx.gen is not None else None
    if gresps is None:
        res.skipped["generated_driver_not_built"] = 1
    for i, c in enumerate(cases):
        d, tags = _compare_snap(ctx, c, resps[2 * i], resps[2 * i + 1])
        if gresps is not None:
            res.distribution["regenerated_pass_compared"] = res.distribution.get("regenerated_pass_compared", 0) + 1
            if gresps[i].strip() != resps[2 * i].split(" crisp=")[0].strip():
                res.disagreements.append(Disagreement("S06-snappass", {"stream": "S06-snappass", "request": "g" + reqs[2 * i]}, resps[2 * i][:400], gresps[i][:400], None,
                                                      "the regenerated snap_traces (Lean) and the hand-written pass model disagree"))
        res.evaluations += 1
        if "pass_changed" in tags:
            res.nontrivial += 1
        for tg in tags:
            if tg.endswith("non_crisp"):
                res.skipped[tg] = res.skipped.get(tg, 0) + 1
            else:
                res.distribution[tg] = res.distribution.get(tg, 0) + 1
        if d is not None:
            res.disagreements.append(d)
    if cases:
        res.samples = [{"t": cases[0]["t"], "side": cases[0]["side"], "traces": cases[0]["traces"][:3], "model_pass": resps[0][:300]}]
    return res


def s06_generated(ctx):
    """translator validation: the REGENERATED second snapping stage and repeat-until-stable driver (compiled into gen_c06) vs the real code"""
    import_fractopo()
    from shapely.geometry import LineString, Point, box

    import fractopo.branches_and_nodes as ban

    res = StreamResult("S06-generated", rule="regenerated insert_point_to_linestring (with determine_insert_approach) / snap_trace_to_another / is_endpoint_close_to_boundary (Lean, compiled, exact geometry for the parameters) vs the real "
                       "functions on random polylines with ends 0 / 0.5 / 0.95 / 1.05 / 3 x snap from them; the regenerated `while any_changes_applied` driver vs the real loop "
                       "inside branches_and_nodes with a scripted snap_traces (every change pattern up to allowed_loops + 2 passes); non-trivial = something inserted / raised")
    if ctx.gen is None:
        res.note = "gen_c06 not built (a generated module is broken): skipped"
        res.skipped["generated_driver_not_built"] = 1
        return res
    rng = rng_for(ctx.seed, "S06g")
    reqs, cases = [], []
    for _ in range(budget(ctx.tier, 200, 4000)):
        t = rng.choice([0.01, 0.1, 0.001])
        k = rng.randint(2, 4)
        pts = [(rng.randint(-32, 32) / 4, rng.randint(-32, 32) / 4)]
        for _ in range(k - 1):
            pts.append((pts[-1][0] + rng.randint(-12, 12) / 4, pts[-1][1] + rng.randint(4, 16) / 4))
        eps = []
        for _ in range(rng.randint(1, 3)):
            j = rng.randrange(len(pts) - 1)
            (ax, ay), (bx, by) = pts[j], pts[j + 1]
            L = math.hypot(bx - ax, by - ay)
            u = rng.uniform(0.15, 0.85)
            g = rng.choice([0.0, 0.5, 0.95, 1.05, 3.0]) * t * rng.choice([1, -1])
            eps.append((ax + u * (bx - ax) - (by - ay) / L * g, ay + u * (by - ay) + (bx - ax) / L * g))
        cases.append(("snapto", t, pts, eps))
        reqs.append(f"snapto t={rat(t)} eps={line(eps)} another={line(pts)}")
    area = box(-10.0, -10.0, 10.0, 10.0)
    for _ in range(budget(ctx.tier, 100, 1000)):
        t = rng.choice([0.01, 0.1])
        g = rng.choice([0.0, 0.5, 0.95, 1.05, 5.0]) * t
        p = (10.0 - g, rng.uniform(-9, 9)) if rng.random() < 0.5 else (rng.uniform(-9, 9), -10.0 + g)
        cases.append(("closeb", t, p))
        reqs.append(f"closeb t={rat(t)} areas={area_rows([area])} pt={pt(p)}")
    allowed = 3
    import itertools as _it

    for n in range(0, allowed + 3):
        for tail in ([False], [True]):
            script = [True] * n + tail
            cases.append(("driver", allowed, script))
            reqs.append(f"driver allowed={allowed} script={';'.join(str(int(b)) for b in script)}")
    ins = insert_cases(rng, budget(ctx.tier, 300, 6000))
    ins += [(pts, pts[rng.randrange(len(pts))], t) for pts, _, t in ins[:20]]  # the point coincides with a vertex: returned unchanged
    crisp = [parse_resp(x).get("crisp") == "1" for x in ctx.driver.parallel([f"insertpt t={rat(t)} line={line(pts)} pt={pt(p)}" for pts, p, t in ins])]
    for (pts, p, t), cr in zip(ins, crisp):
        if cr:
            cases.append(("ginsert", t, pts, p))
            reqs.append(f"ginsert t={rat(t)} line={line(pts)} pt={pt(p)}")
        else:
            res.skipped["non_crisp"] = res.skipped.get("non_crisp", 0) + 1
    resps = ctx.gen.parallel(reqs)
    for c, req, resp in zip(cases, reqs, resps):
        res.evaluations += 1
        r = parse_resp(resp)
        if c[0] == "ginsert":
            _, t, pts, p = c
            want = [(F(x), F(y)) for x, y in ban.insert_point_to_linestring(LineString(pts), Point(p), t).coords]
            got = parse_line(r["line"])
            res.nontrivial += int(len(want) == len(pts))
            res.distribution["ginsert"] = res.distribution.get("ginsert", 0) + 1
        elif c[0] == "snapto":
            _, t, pts, eps = c
            try:
                out, ch = ban.snap_trace_to_another([Point(e) for e in eps], LineString(pts), t)
                want = ([(F(x), F(y)) for x, y in out.coords], bool(ch))
            except Exception as e:  # noqa: BLE001
                res.skipped["impl_raised"] = res.skipped.get("impl_raised", 0) + 1
                continue
            got = (parse_line(r["line"]), r["changed"] == "1")
            res.nontrivial += int(want[1])
        elif c[0] == "closeb":
            _, t, p = c
            want = bool(ban.is_endpoint_close_to_boundary(Point(p), [area], t))
            got = r["close"] == "1"
            res.nontrivial += int(want)
        else:
            _, allowed_, script = c
            calls = {"n": 0}
            orig = ban.snap_traces

            def scripted(traces, snap_threshold, areas=None, final_allowed_loop=False):
                k = calls["n"]
                calls["n"] += 1
                return traces, (script[k] if k < len(script) else False)

            import geopandas as gpd

            ban.snap_traces = scripted
            try:
                ban.branches_and_nodes(gpd.GeoSeries([LineString([(0, 0), (1, 1)])]), gpd.GeoSeries([area]), 0.01, allowed_loops=allowed_, already_clipped=True)
                want = f"calls={calls['n']} loops={calls['n'] - 1}"
            except RecursionError:
                want = "err=RecursionError"
            finally:
                ban.snap_traces = orig
            got = resp.strip()
            res.nontrivial += int("err" in want)
        if got != want:
            res.disagreements.append(Disagreement("S06-generated", {"stream": "S06-generated", "request": req}, jsonable(got), jsonable(want), None,
                                                  "regenerated code (Lean) and the Python code disagree: translator semantics wrong"))
    res.samples = [{"request": reqs[0][:200], "response": resps[0][:200]}]
    return res


def s06_crop_order(ctx):
    """snapping when extraction crops internally (`already_clipped=False`, `Network(truncate_traces=False)`): an end lying exactly on a trace that the area boundary cuts
    elsewhere must still be connected -- the crop moves such a trace by an ulp, so the snapping pass has to see the CROPPED traces"""
    import_fractopo()
    res = StreamResult("S06-crop-order", rule="valid maps (Lean oracle) in box / circle / concave areas that cut traces -- planted abutments exactly on segments that leave the area included -- "
                       "through the two routes that crop internally (branches_and_nodes(already_clipped=False), Network(truncate_traces=False)), each compared with the exact "
                       "arrangement; non-trivial = map with a Y node and a boundary cut")
    rng = rng_for(ctx.seed, "S06co")
    t = 0.01
    maps, _ = valid_maps(ctx, rng, budget(ctx.tier, 30, 500), F(t), area_kinds=("box", "circle", "concave"))
    cut = [m for m in maps if any(c == "E" for _, c in m[3].nodes)] or maps
    before = res.nontrivial
    c01.run_maps(ctx, cut, t, res, "S06-crop-order", routes=("direct", "network_notrunc"))
    res.nontrivial = before + sum(1 for m in cut if any(c == "Y" for _, c in m[3].nodes))
    return res


STREAMS = [s06_insert, s06_snappass, s06_perturbed, s06_crop_order, s06_generated]


def replay(ctx, stream, case):
    import_fractopo()
    if stream == "S06-generated":
        r = s06_generated(ctx)
        return r.disagreements[0] if r.disagreements else None
    if stream == "S06-crop-order":
        return c01.replay(ctx, stream, case)
    if stream == "S06-insert":
        from shapely.geometry import LineString, Point

        from fractopo.branches_and_nodes import insert_point_to_linestring

        pts, p, t = [tuple(x) for x in case["line"]], tuple(case["pt"]), case["t"]
        m = parse_resp(ctx.driver.batch([f"insertpt t={rat(t)} line={line(pts)} pt={pt(p)}"])[0])
        model = [(float(x), float(y)) for x, y in parse_line(m["line"])]
        got = [c[:2] for c in insert_point_to_linestring(LineString(pts), Point(p), t).coords]
        return None if got == model else Disagreement(stream, case, model, got, True)
    if stream == "S06-snappass":
        from shapely import wkt as _wkt

        area = _wkt.loads(case["area_wkt"])
        ex = _exact(case["traces"])
        rs = ctx.driver.batch([f"snappass t={rat(case['t'])} areas={area_rows([area])} traces={lines(ex)}",
                               f"snaploop t={rat(case['t'])} allowed=10 areas={area_rows([area])} traces={lines(ex)}"])
        return _compare_snap(ctx, case, rs[0], rs[1])[0]
    r = s06_perturbed(ctx)
    return r.disagreements[0] if r.disagreements else None
