"""S18 — contour grid: cells vs the Grid model, per-cell values vs exact recomputation, schedule independence."""
from __future__ import annotations

import math
from fractions import Fraction as F

from harness.common import Disagreement, StreamResult, area_rows, budget, import_fractopo, lines, parse_lines, parse_resp, pt, rat, rng_for
from harness.mapgen import to_float_lines, valid_maps

F11_KEY = "F11:zero-extent-axis"


def grid_table(net, w, backend, n_jobs_env=None, resolve=False):
    import joblib

    if backend == "sequential":
        with joblib.parallel_config(backend="threading", n_jobs=1):
            # n_jobs=-1 is hard-coded at the call site; the sequential reference is computed cell by cell below instead
            pass
    with joblib.parallel_config(backend=backend if backend != "sequential" else "threading"):
        return net.contour_grid(cell_width=w, resolve_branches_nodes=resolve)


def canon_table(g):
    cols = [c for c in g.columns if c != "geometry"]
    rows = []
    for i in range(len(g)):
        rows.append((g.geometry.values[i].bounds, tuple((c, None if g[c].values[i] != g[c].values[i] else float(g[c].values[i])) for c in sorted(cols))))
    return rows


def tables_close(a, b, rel=1e-9):
    """row-wise equality of canonical tables up to float noise (the sample radius is taken from the FIRST cell's area, which differs
    between cells in the last bits)"""
    if len(a) != len(b):
        return False
    for (ba, va), (bb, vb) in zip(a, b):
        if ba != bb or len(va) != len(vb):
            return False
        # a sample circle tangent to a trace end (systematic when 1.5 x width = half the extent) picks up or loses a sliver of
        # ~1e-13 depending on the last bits of the radius: such cells are not crisp
        sliver = any(k in ("Trace Min Length", "Branch Min Length") and x is not None and 0 < x < 1e-6 for k, x in list(va) + list(vb))
        if sliver:
            continue
        # a trace touching the sample circle from inside is cut there into two pieces or left whole depending on the last bit of the radius: the total length inside (P21, B21)
        # is the same, the piece counts and the min / max / mean lengths are not -- such a cell is not crisp either
        da, db = dict(va), dict(vb)
        same_total = all(da.get(k) is not None and db.get(k) is not None and abs(da[k] - db[k]) <= rel * max(1.0, abs(da[k])) for k in ("Fracture Intensity P21", "Fracture Intensity B21"))
        if same_total and any(da.get(k) != db.get(k) for k in ("Number of Traces (Real)", "Number of Branches (Real)")):
            continue
        for (ka, xa), (kb, xb) in zip(va, vb):
            if ka != kb or (xa is None) != (xb is None):
                return False
            if xa is not None and abs(xa - xb) > rel * max(1.0, abs(xa), abs(xb)):
                return False
    return True


def check_map(ctx, traces, area, kind, ar, t, w_frac, res, stream, backends):
    import geopandas as gpd
    import numpy as np
    from shapely.geometry import Point

    from fractopo import Network

    tr = gpd.GeoDataFrame(geometry=to_float_lines(traces))
    net = Network(trace_gdf=tr, area_gdf=gpd.GeoDataFrame(geometry=[area]), name="g", determine_branches_nodes=True, snap_threshold=t, truncate_traces=True,
                  circular_target_area=False)
    xmin, ymin, xmax, ymax = [float(v) for v in net.branch_gdf.total_bounds]
    w = max(xmax - xmin, ymax - ymin) / w_frac
    case = {"stream": stream, "t": t, "traces": lines(traces), "areas": area_rows([area]), "width": w, "width_fraction": w_frac}
    if xmax == xmin or ymax == ymin:
        case["finding_key"] = F11_KEY  # zero extent along an axis: the grid has no cells (known finding F11)
    tables = {}
    for b in backends:
        try:
            tables[b] = grid_table(net, w, b)
        except Exception as e:
            res.disagreements.append(Disagreement(stream, dict(case, backend=b), "table", f"{type(e).__name__}: {str(e)[:160]}", True, "contour_grid raised"))
            return
    ref = canon_table(tables[backends[0]])
    for b in backends[1:]:
        if canon_table(tables[b]) != ref:
            res.disagreements.append(Disagreement(stream, dict(case, backend=b), "identical table", "differs", True, f"table under backend {b} differs from {backends[0]}"))
            return
    g = tables[backends[0]]
    # precursor grid: sampling the same cells again (width omitted) must reproduce the table
    try:
        import joblib
        with joblib.parallel_config(backend="threading"):
            again = net.contour_grid(precursor_grid=g[["geometry"]].copy())
        if canon_table(again) != ref:
            res.disagreements.append(Disagreement(stream, dict(case, step="precursor_grid"), "same table as the grid it was built from", "differs", True,
                                                  "sampling on the produced grid passed as precursor_grid gives different cell values"))
            return
        # a precursor grid the user has reordered / filtered (index labels no longer 0..n-1 in order): every cell keeps ITS values
        for label, sel in (("reversed", slice(None, None, -1)), ("every_other", slice(1, None, 2))):
            pg = g[["geometry"]].iloc[sel].copy()
            if len(pg) == 0:
                continue
            with joblib.parallel_config(backend="threading"):
                sub = net.contour_grid(precursor_grid=pg)
            if not tables_close(canon_table(sub), ref[sel]):
                res.disagreements.append(Disagreement(stream, dict(case, step=f"precursor_grid_{label}"), "each cell keeps the values computed for that cell", "differs", True,
                                                      f"a {label} precursor grid (non-default index) gets other cells' values / NaN"))
                return
    except Exception as e:
        res.disagreements.append(Disagreement(stream, dict(case, step="precursor_grid"), "table", f"{type(e).__name__}: {str(e)[:160]}", True, "contour_grid(precursor_grid=...) raised"))
        return
    # grid geometry vs the model. The code computes rows / cols as ceil of a FLOAT quotient; when extent / width is within
    # rounding of an integer (e.g. width = extent / 3) the exact quotient and the float quotient can fall on different sides
    # of that integer, so both neighbouring counts are accepted there (the cover check below has the matching tolerance).
    def near_int(q):
        return abs(q - round(q)) < F(1, 10**9)

    wq = F(w)
    if near_int(F(xmax - xmin) / wq) or near_int(F(ymax - ymin) / wq):
        w_variants = [wq * (1 - F(1, 10**8)), wq * (1 + F(1, 10**8))]
        res.distribution["near_integer_quotient"] = res.distribution.get("near_integer_quotient", 0) + 1
    else:
        w_variants = [wq]
    problems = []
    for wv in w_variants:
        m = parse_resp(ctx.driver.batch([f"grid xmin={rat(xmin)} ymin={rat(ymin)} xmax={rat(xmax)} ymax={rat(ymax)} w={rat(wv)}"])[0])
        cells = [tuple(float(F(v)) for v in c.split(",")) for c in m["cells"].split(";")] if m.get("cells") else []
        problems = []
        if len(g) != len(cells):
            problems.append(f"{len(g)} cells, model {len(cells)} (rows {m['rows']} x cols {m['cols']})")
        else:
            tol = 1e-9 * max(1.0, abs(xmax), abs(ymax)) + 64 * w * 2.3e-16 * len(cells) + (2e-8 * w * max(int(m['rows']), int(m['cols'])) if len(w_variants) > 1 else 0.0)
            for geom, (l, b_, r, tp) in zip(g.geometry.values, cells):
                bl, bb, br, bt = geom.bounds
                if max(abs(bl - l), abs(bb - b_), abs(br - r), abs(bt - tp)) > tol or abs(geom.area - w * w) > 1e-9 * w * w:
                    problems.append(f"cell {geom.bounds} is not the model cell {(l, b_, r, tp)} (order / size / position)")
                    break
            # union covers every branch (up to the accumulated rounding of the edges, F11)
            if not (min(c[0] for c in cells) <= xmin + tol and max(c[2] for c in cells) >= xmax - tol and min(c[1] for c in cells) <= ymin + tol and max(c[3] for c in cells) >= ymax - tol):
                problems.append("union of the cells does not contain the branch bounds")
        if not problems:
            break
    res.distribution["cells"] = res.distribution.get("cells", 0) + len(cells)
    # per-cell values vs exact recomputation for a sample of cells
    if not problems:
        idxs = sorted(set([0, len(g) - 1] + list(range(0, len(g), max(1, len(g) // 6)))))
        reqs_clip, reqs_in, circles = [], [], []
        node_pts = [(p.x, p.y) for p in net.node_gdf.geometry.values]
        for i in idxs:
            cen = g.geometry.values[i].centroid
            circle = Point(cen.x, cen.y).buffer(math.sqrt(g.geometry.values[i].area) * 1.5)
            circles.append(circle)
            reqs_clip.append(f"clip areas={area_rows([circle])} traces={lines([list(gm.coords) for gm in net.trace_gdf.geometry.values])}")
            reqs_in.append(f"inarea areas={area_rows([circle])} pts={';'.join(pt(p) for p in node_pts)}")
        resp_clip = ctx.driver.parallel(reqs_clip)
        resp_in = ctx.driver.parallel(reqs_in)
        for i, circle, rc, ri in zip(idxs, circles, resp_clip, resp_in):
            pcs = [parse_lines(x) for x in parse_resp(rc)["pieces"].split("#")]
            total = sum(math.hypot(float(b[0] - a[0]), float(b[1] - a[1])) for ps in pcs for pc in ps for a, b in zip(pc[:-1], pc[1:]))
            p21 = total / circle.area
            got = float(g["Fracture Intensity P21"].values[i])
            if abs(got - p21) > 1e-7 * max(1.0, p21):
                problems.append(f"cell {i}: P21 {got!r}, recomputed from the traces clipped to the circle of radius 1.5 w: {p21!r}")
                break
            inside = [v for v in parse_resp(ri)["in"].split(",")] if node_pts else []
            classes = list(net.node_gdf["Class"].values)
            for cls, name in (("X", "Connection Frequency"),):
                pass
            nx = sum(1 for v, c in zip(inside, classes) if v != "0" and c == "X")
            ny = sum(1 for v, c in zip(inside, classes) if v != "0" and c == "Y")
            cf = (nx + ny) / circle.area
            gotcf = float(g["Connection Frequency"].values[i])
            if abs(gotcf - cf) > 1e-7 * max(1.0, cf):
                problems.append(f"cell {i}: Connection Frequency {gotcf!r}, recomputed from the nodes inside the circle: {cf!r}")
                break
    res.evaluations += 1
    if len(cells) > 1:
        res.nontrivial += 1
    if len(res.samples) < 2:
        res.samples.append({"case": {k: case[k] for k in ("width", "width_fraction")}, "rows": m.get("rows"), "cols": m.get("cols"), "backends": list(backends)})
    if problems:
        res.disagreements.append(Disagreement(stream, case, {"rows": m.get("rows"), "cols": m.get("cols")}, problems, True, "; ".join(problems)[:400]))


def s18_grid(ctx):
    import_fractopo()
    res = StreamResult("S18-grid", rule="valid maps x cell widths extent/3 .. extent/13 (dividing, not dividing, and just short of dividing: quotient 4.00003) x joblib backends loky / threading (x worker limits in "
                       "thorough): cells vs the exact Grid model (count, order, size, position, cover), sampled cells' P21 and connection frequency vs exact "
                       "recomputation from traces / nodes clipped to the circle of radius 1.5 w, tables identical across backends; non-trivial = grid with > 1 cell")
    rng = rng_for(ctx.seed, "S18")
    t = 0.01
    maps, _ = valid_maps(ctx, rng, budget(ctx.tier, 3, 24), F(t), area_kinds=("box",), nmax=7)
    # 4.00003: a width that falls just short of dividing the extent (quotient a few 1e-5 above an integer): one more row / column is needed to cover the far edge
    fracs = [3, 7.3, 4.00003] if ctx.tier == "quick" else [3, 4, 7.3, 13, 25.5, 4.00003, 11.0001]
    for (traces, area, kind, ar) in maps:
        for wf in fracs:
            check_map(ctx, traces, area, kind, ar, t, wf, res, "S18-grid", ("loky", "threading"))
    return res


def lattice_map(rng):
    """disjoint polylines on the INTEGER lattice, one per horizontal band (so the map is trivially valid: no contacts at all). With a cell width of 2 the
    sample circles (radius 3, centres on the lattice) have their easternmost vertex exactly on a lattice point, so trace vertices regularly sit exactly on a
    circle. The middle band holds a PLANTED trace that touches the easternmost vertex of one sample circle from outside in an isolated point and then runs
    through the same circle (its clip is a line plus a point)."""
    traces = []
    for y0 in (0, 12) if rng.random() < 0.7 else (0, 12, 17):
        k = rng.randint(2, 5)
        xs = sorted(rng.sample(range(0, 15), k))
        if rng.random() < 0.5:
            xs = xs[::-1]
        traces.append([(float(x), float(y0 + rng.randint(0, 3))) for x in xs])
    x_min = min(p[0] for l in traces for p in l)
    x_max = max(p[0] for l in traces for p in l)
    y_max = max(p[1] for l in traces for p in l)
    # touch vertex (X, Y) = centre + (3, 0) of a cell: X - x_min - 4 and y_max - Y - 1 are even multiples of the cell width 2 / its half
    cands = [(X, Y) for X in range(int(x_min) + 4, int(x_max) - 1) for Y in (7, 8) if (X - int(x_min)) % 2 == 0 and (int(y_max) - Y) % 2 == 1]
    if cands:
        X, Y = rng.choice(cands)
        planted = [(X + 2.0, Y + 2.0), (float(X), float(Y)), (X + 2.0, Y - 2.0), (X - 4.0, Y - 2.0)]
        if rng.random() < 0.5:
            planted = planted[::-1]
        traces.insert(rng.randint(0, len(traces)), planted)
    return traces


def check_touch_map(ctx, traces, w, res, stream):
    import geopandas as gpd
    import joblib
    from shapely.geometry import LineString, Point, box

    from fractopo import Network

    case = {"stream": stream, "traces": traces, "width": w}
    try:
        net = Network(trace_gdf=gpd.GeoDataFrame(geometry=[LineString(l) for l in traces]), area_gdf=gpd.GeoDataFrame(geometry=[box(-8.0, -8.0, 24.0, 28.0)]),
                      name="touch", determine_branches_nodes=True, snap_threshold=0.01, truncate_traces=True, circular_target_area=False)
        with joblib.parallel_config(backend="threading"):
            g = net.contour_grid(cell_width=w)
    except Exception as e:
        res.disagreements.append(Disagreement(stream, case, "table", f"{type(e).__name__}: {str(e)[:200]}", True, "contour_grid raised"))
        return
    own = [[tuple(c[:2]) for c in gm.coords] for gm in net.trace_gdf.geometry.values]
    circles, reqs = [], []
    for cell in g.geometry.values:
        cen = cell.centroid
        circle = Point(cen.x, cen.y).buffer(math.sqrt(cell.area) * 1.5)
        circles.append(circle)
        reqs.append(f"clip areas={area_rows([circle])} traces={lines(own)}")
    resps = ctx.driver.parallel(reqs)
    touched = 0
    for i, (circle, rc) in enumerate(zip(circles, resps)):
        r = parse_resp(rc)
        pcs = [parse_lines(x) for x in r["pieces"].split("#")]
        touch = any(x == "1" for x in r.get("touch", "").split(",")) if r.get("touch") else False
        touched += int(touch)
        total = sum(math.hypot(float(b[0] - a[0]), float(b[1] - a[1])) for ps in pcs for pc in ps for a, b in zip(pc[:-1], pc[1:]))
        p21 = total / circle.area
        got = float(g["Fracture Intensity P21"].values[i])
        if abs(got - p21) > 1e-7 * max(1.0, p21):
            res.disagreements.append(Disagreement(stream, dict(case, cell=i, centre=[circle.centroid.x, circle.centroid.y], touch=touch), p21, got, True,
                                                  f"cell {i}: P21 {got!r}, recomputed from the traces clipped exactly to its sample circle: {p21!r}"))
            return
    res.distribution["cells"] = res.distribution.get("cells", 0) + len(circles)
    res.distribution["cells_with_a_trace_touching_the_circle_in_a_point"] = res.distribution.get("cells_with_a_trace_touching_the_circle_in_a_point", 0) + touched
    if touched:
        res.nontrivial += 1


def s18_touch(ctx):
    import_fractopo()
    res = StreamResult("S18-touch", rule="integer-lattice maps of 2..4 disjoint polylines, one of them planted to touch the easternmost vertex of a sample circle in a point and run through the circle, x cell width 2 (sample circles of radius 3 centred on lattice points: trace vertices sit exactly on "
                       "circle vertices) and width 2.5: EVERY cell's P21 vs the exact clip (Lean) of the network's traces to that cell's sample circle; non-trivial = "
                       "map in which some trace touches some sample circle in an isolated point and also runs through it")
    rng = rng_for(ctx.seed, "S18t")
    for _ in range(budget(ctx.tier, 10, 150)):
        traces = lattice_map(rng)
        res.evaluations += 1
        check_touch_map(ctx, traces, 2.0 if rng.random() < 0.8 else 2.5, res, "S18-touch")
    res.samples = [{"maps": res.evaluations}]
    return res


def check_resolve_map(ctx, traces, area, t, res, extra=None):
    """one map in per-cell topology mode: the table of a trace-only Network vs that of the Network with determined topology; raising is a failure (repaired defect F17)"""
    import geopandas as gpd
    import joblib

    from fractopo import Network

    case = {"stream": "S18-resolve", "t": t, "traces": lines(traces), "areas": area_rows([area])}
    case.update(extra or {})
    tables = {}
    try:
        for topo in (False, True):
            net = Network(trace_gdf=gpd.GeoDataFrame(geometry=to_float_lines(traces)), area_gdf=gpd.GeoDataFrame(geometry=[area]), name="r", determine_branches_nodes=topo,
                          snap_threshold=t, truncate_traces=True, circular_target_area=False)
            x0, y0, x1, y1 = [float(v) for v in net.trace_gdf.total_bounds]
            w = max(x1 - x0, y1 - y0) / 3
            with joblib.parallel_config(backend="threading"):
                tables[topo] = canon_table(net.contour_grid(cell_width=w, resolve_branches_nodes=True))
    except Exception as e:
        res.disagreements.append(Disagreement("S18-resolve", case, "a table", f"{type(e).__name__}: {str(e)[:200]}", True,
                                              "contour_grid(resolve_branches_nodes=True) raised on a valid map (a cell whose circle holds no trace is the empty sample)"))
        return
    # cells without any trace inside their circle report the empty sample
    for _, vals in tables[False]:
        d = dict(vals)
        if d.get("Fracture Intensity P21") == 0.0 and d.get("Number of Traces") not in (0.0, None):
            res.disagreements.append(Disagreement("S18-resolve", case, "empty sample", d, True, "a cell without trace length reports traces"))
            return
    if not tables_close(tables[False], tables[True]):
        diff = []
        for (ba, va), (_, vb) in zip(tables[False], tables[True]):
            for (ka, xa), (_, xb) in zip(va, vb):
                if (xa is None) != (xb is None) or (xa is not None and abs(xa - xb) > 1e-9 * max(1.0, abs(xa))):
                    diff.append((ba, ka, xa, xb))
        res.disagreements.append(Disagreement("S18-resolve", case, "the same table from both Networks", diff[:4], True,
                                              f"per-cell topology mode depends on whether the Network had determined its own topology: {diff[:2]}"))


def s18_resolve(ctx):
    """per-cell topology mode: contour_grid(resolve_branches_nodes=True) extracts branches and nodes from the traces inside every sample circle, so the table cannot depend on
    whether the Network itself has determined its topology"""
    import_fractopo()
    res = StreamResult("S18-resolve", rule="valid maps x cell width extent/3: contour_grid(resolve_branches_nodes=True) of a trace-only Network (determine_branches_nodes=False) vs the "
                       "same call on the Network with determined topology: no exception (cells whose circle holds no trace are empty samples), identical tables (in this mode every "
                       "cell extracts its own branches and nodes from the traces in its circle); non-trivial = map with an X or Y node")
    rng = rng_for(ctx.seed, "S18r")
    t = 0.01
    maps, _ = valid_maps(ctx, rng, budget(ctx.tier, 5, 30), F(t), area_kinds=("box",), nmax=5)
    for traces, area, kind, ar in maps:
        res.evaluations += 1
        if any(c in "XY" for _, c in ar.nodes):
            res.nontrivial += 1
        check_resolve_map(ctx, traces, area, t, res)
    res.samples = [{"maps": len(maps)}]
    return res


def s18_generated(ctx):
    """translator validation: the REGENERATED loops of create_grid (compiled into gen_c18) vs the real function on exactly representable inputs"""
    import_fractopo()
    import geopandas as gpd
    from shapely.geometry import LineString

    from fractopo.analysis.contour_grid import create_grid

    res = StreamResult("S18-generated", rule="regenerated create_grid loops (Lean, compiled) vs the real create_grid on dyadic bounds and widths (float arithmetic exact, "
                       "quotients not within 1e-9 of an integer): cell count, order and bounds equal; non-trivial = more than one row and column")
    if ctx.gen is None:
        res.note = "gen_c18 not built (a generated module is broken): skipped"
        res.skipped["generated_driver_not_built"] = 1
        return res
    rng = rng_for(ctx.seed, "S18g")
    cases, reqs = [], []
    for _ in range(budget(ctx.tier, 120, 1500)):
        x0, y0 = rng.randint(-64, 64) / 4, rng.randint(-64, 64) / 4
        ex, ey = rng.randint(1, 80) / 4, rng.randint(1, 80) / 4
        w = rng.choice([0.25, 0.5, 0.75, 1.0, 1.5, 2.25, 3.0, 5.5])
        if abs(ex / w - round(ex / w)) < 1e-9 and rng.random() < 0.5:
            ex += 0.125
        cases.append((x0, y0, x0 + ex, y0 + ey, w))
        reqs.append(f"grid xmin={rat(x0)} ymin={rat(y0)} xmax={rat(x0 + ex)} ymax={rat(y0 + ey)} w={rat(w)}")
    resps = ctx.gen.parallel(reqs)
    for (x0, y0, x1, y1, w), req, resp in zip(cases, reqs, resps):
        res.evaluations += 1
        g = create_grid(w, gpd.GeoSeries([LineString([(x0, y0), (x1, y1)])]))
        want = [tuple(F(v) for v in geom.bounds) for geom in g.geometry.values]
        r = parse_resp(resp)
        got = [tuple(F(v) for v in c.split(",")) for c in r["cells"].split(";")] if r.get("cells") else []
        cols, rows = math.ceil((x1 - x0) / w), math.ceil((y1 - y0) / w)
        res.nontrivial += int(cols > 1 and rows > 1)
        if got != want:
            res.disagreements.append(Disagreement("S18-generated", {"stream": "S18-generated", "request": req}, [str(x) for x in got[:4]], [str(x) for x in want[:4]], None,
                                                  "regenerated create_grid loops (Lean) and the Python function disagree"))
    res.samples = [{"request": reqs[0], "response": resps[0][:160]}]
    return res


STREAMS = [s18_grid, s18_touch, s18_resolve, s18_generated]


def replay(ctx, stream, case):
    import_fractopo()
    if stream == "S18-generated":
        r = s18_generated(ctx)
        return r.disagreements[0] if r.disagreements else None
    if stream == "S18-resolve":
        from shapely.geometry import Polygon as _Polygon

        trs = parse_lines(case["traces"])
        ring = parse_lines(case["areas"].split("#")[0].split("&")[0])[0]
        res = StreamResult("replay")
        check_resolve_map(ctx, trs, _Polygon([(float(x), float(y)) for x, y in ring]), case["t"], res)
        return res.disagreements[0] if res.disagreements else None
    if stream == "S18-touch":
        res = StreamResult("replay")
        check_touch_map(ctx, [[tuple(p) for p in l] for l in case["traces"]], case["width"], res, stream)
        return res.disagreements[0] if res.disagreements else None
    from shapely.geometry import Polygon

    from harness.mapgen import Arrangement, arr_request

    traces = parse_lines(case["traces"])
    rings = parse_lines(case["areas"].split("#")[0].split("&")[0])
    fl = lambda l: [(float(x), float(y)) for x, y in l]  # noqa: E731
    area = Polygon(fl(rings[0]), [fl(r) for r in rings[1:]])
    ar = Arrangement(ctx.driver.batch([arr_request(traces, [area], F(case["t"]))])[0])
    res = StreamResult("replay")
    check_map(ctx, traces, area, "?", ar, case["t"], case["width_fraction"], res, stream, ("loky", "threading"))
    return res.disagreements[0] if res.disagreements else None


def replay_finding(ctx, k):
    """F11: a single vertical trace has zero x-extent -> create_grid makes no cells and asserts"""
    import_fractopo()
    import geopandas as gpd
    from shapely.geometry import LineString, box

    from fractopo import Network

    net = Network(trace_gdf=gpd.GeoDataFrame(geometry=[LineString([(0, -3), (0, 3)])]), area_gdf=gpd.GeoDataFrame(geometry=[box(-5, -5, 5, 5)]), name="f11",
                  determine_branches_nodes=True, snap_threshold=0.01)
    try:
        net.contour_grid(cell_width=1.0)
        return False
    except AssertionError:
        return True
