"""S17 — cached operations in subprocesses: disabled / fresh / pre-populated / damaged cache directories."""
from __future__ import annotations

import json
import os
import random
import shutil
import subprocess
import tempfile
from concurrent.futures import ThreadPoolExecutor
from pathlib import Path

from harness.common import REPO, VERIF, Disagreement, StreamResult, budget

OPS = ["crop", "nodes", "junctions", "topology", "crop_allow", "crop_nodata"]
INPUTS = ["base", "coord", "attr", "order", "crs", "crs_area_only", "crs_traces_only", "threshold", "area", "mls"]
F10_KEY = "F10:byte-flip-that-leaves-the-pickle-loadable"
F22_KEY = "F22:byte-flip-in-func_code.py"


def child(calls, cache_dir=None, disable=False):
    env = dict(os.environ)
    env["VERIF_REPO"] = str(REPO)
    env.pop("FRACTOPO_DISABLE_CACHE", None)
    if disable:
        env["FRACTOPO_DISABLE_CACHE"] = "1"
    else:
        env["FRACTOPO_DISABLE_CACHE"] = "0"
        env["FRACTOPO_CACHE_PATH"] = str(cache_dir)
    p = subprocess.run(["/venv/bin/python", str(VERIF / "harness" / "cache_child.py")] + [f"{o}:{i}" for o, i in calls], capture_output=True, text=True, env=env,
                       cwd=str(cache_dir) if cache_dir else "/var/tmp", timeout=600)
    out = []
    for l in p.stdout.split("\n"):
        if l.startswith("{"):
            out.append(json.loads(l))
    if len(out) != len(calls):
        raise RuntimeError(f"cache child produced {len(out)} lines for {len(calls)} calls: {p.stderr[-400:]}")
    return out


def cache_files(d):
    return sorted(p for p in Path(d).rglob("*") if p.is_file())


def apply_fault(path: Path, fault):
    kind = fault[0]
    if kind == "delete":
        path.unlink()
    elif kind == "truncate":
        data = path.read_bytes()
        path.write_bytes(data[: len(data) * fault[1] // 8])
    elif kind == "flip":
        data = bytearray(path.read_bytes())
        if data:
            i = fault[1] % len(data)
            data[i] ^= 0xFF
            path.write_bytes(bytes(data))


def run_history(h):
    """h = dict(calls1, faults (list of (file selector, fault)), calls2, prepopulate)"""
    d = Path(tempfile.mkdtemp(prefix="fv_c17_", dir="/var/tmp"))
    try:
        out1 = child(h["calls1"], d)
        files = cache_files(d)
        applied = []
        for sel, fault in h["faults"]:
            if files:
                f = files[sel % len(files)]
                if f.exists():
                    apply_fault(f, fault)
                    applied.append((str(f.relative_to(d))[-60:], fault))
        out2 = child(h["calls2"], d)
        return out1, out2, applied, len(files)
    finally:
        shutil.rmtree(d, ignore_errors=True)


def s17_histories(ctx):
    res = StreamResult("S17-histories", rule="histories of <= 8 calls (4 cached operations + contour-grid sampling over a caller-owned precursor grid (cold / warm / near-identical input) + the crop with each of its two flags flipped x 10 near-identical inputs: base, one coordinate, one attribute, row "
                       "order, CRS, CRS on the areas only, CRS on the traces only, threshold, area, a multi-part trace) in two processes sharing a cache directory, with faults between them on the files written under it: "
                       "delete, truncate at k/8, flip a byte; every call compared with the result with caching disabled; non-trivial = history with a fault "
                       "on a file that a later call reads")
    rng = random.Random(f"{ctx.seed}:S17")
    # reference: caching disabled, one process per (op, input)
    pairs = [(o, i) for o in OPS for i in INPUTS] + [("grid", "base"), ("grid", "coord")]
    with ThreadPoolExecutor(14) as ex:
        refs_l = list(ex.map(lambda pr: child([pr], None, disable=True)[0], pairs))
    ref = {pr: r for pr, r in zip(pairs, refs_l)}
    hists = []
    n = budget(ctx.tier, 14, 150)
    for k in range(n):
        c1 = [(rng.choice(OPS), rng.choice(INPUTS)) for _ in range(rng.randint(1, 4))]
        # second process repeats some calls (hits) and adds near-identical inputs (must not share)
        c2 = [rng.choice(c1) for _ in range(rng.randint(1, 2))] + [(rng.choice(c1)[0], rng.choice(INPUTS)) for _ in range(rng.randint(1, 2))]
        mode = k % 4
        faults = []
        if mode == 1:
            faults = [(rng.randrange(1000), ("delete",)) for _ in range(rng.randint(1, 3))]
        elif mode == 2:
            faults = [(rng.randrange(1000), ("truncate", rng.randint(0, 7))) for _ in range(rng.randint(1, 4))]
        elif mode == 3:
            faults = [(rng.randrange(1000), ("flip", rng.randrange(100000))) for _ in range(rng.randint(1, 3))]
        hists.append({"calls1": c1, "faults": faults, "calls2": c2})
    # plain cold-then-warm repeats of the operations that touch the caller's frames, for the inputs where a side effect
    # would show (index labels, CRS on one side only)
    for op in ("crop", "topology"):
        for inp in ("base", "crs_area_only", "crs_traces_only"):
            hists.append({"calls1": [(op, inp)], "faults": [], "calls2": [(op, inp)]})
    # the crop called with each flag combination on the same data, in both orders, cold then warm (an entry must be keyed by the flags too): with a
    # multi-part trace the flag decides between a result and a TypeError
    for a, b in (("crop_allow", "crop"), ("crop", "crop_allow"), ("crop_nodata", "crop"), ("crop", "crop_nodata")):
        for inp in ("mls", "base"):
            hists.append({"calls1": [(a, inp)], "faults": [], "calls2": [(b, inp), (a, inp)]})
    # grid sampling over a caller-owned precursor grid, cold then warm (twice), and a near-identical input in between: result AND the caller's grid
    # (its columns and labels after the call) must not depend on whether the call was a hit
    hists.append({"calls1": [("grid", "base")], "faults": [], "calls2": [("grid", "base"), ("grid", "coord"), ("grid", "base")]})
    with ThreadPoolExecutor(14) as ex:
        outs = list(ex.map(run_history, hists))
    for h, (o1, o2, applied, nfiles) in zip(hists, outs):
        res.evaluations += 1
        res.distribution["cache_files"] = res.distribution.get("cache_files", 0) + nfiles
        kinds = {f[1][0] for f in applied}
        for kd in kinds:
            res.distribution[f"fault_{kd}"] = res.distribution.get(f"fault_{kd}", 0) + 1
        if applied:
            res.nontrivial += 1
        case = {"stream": "S17-histories", "history": h, "applied": applied}
        for calls, outs_ in ((h["calls1"], o1), (h["calls2"], o2)):
            for (op, inp), got in zip(calls, outs_):
                want = ref[(op, inp)]
                if got.get("result") != want.get("result") or got.get("caller") != want.get("caller") or ("exception" in got) != ("exception" in want):
                    flip = any(f[1][0] == "flip" for f in applied)
                    c = dict(case, call=[op, inp])
                    if flip and "exception" not in got:
                        c["finding_key"] = F10_KEY
                    elif flip and "UnicodeDecodeError" in got.get("exception", "") and any("func_code.py" in f[0] for f in applied):
                        c["finding_key"] = F22_KEY
                    res.disagreements.append(Disagreement("S17-histories", c, want, got, True,
                                                          "result or caller-visible side effect differs from the run with caching disabled"))
    res.samples = [hists[0]]
    return res


STREAMS = [s17_histories]


def replay(ctx, stream, case):
    h = case["history"]
    h = {"calls1": [tuple(c) for c in h["calls1"]], "faults": [(s, tuple(f)) for s, f in h["faults"]], "calls2": [tuple(c) for c in h["calls2"]]}
    o1, o2, applied, _ = run_history(h)
    for calls, outs_ in ((h["calls1"], o1), (h["calls2"], o2)):
        for (op, inp), got in zip(calls, outs_):
            want = child([(op, inp)], None, disable=True)[0]
            if got.get("result") != want.get("result") or got.get("caller") != want.get("caller"):
                return Disagreement(stream, case, want, got, True, "differs from caching disabled")
    return None


def _replay_f22():
    want = child([("crop", "base")], None, disable=True)[0]
    d = Path(tempfile.mkdtemp(prefix="fv_c17g_", dir="/var/tmp"))
    try:
        child([("crop", "base")], d)
        for f in cache_files(d):
            if f.name == "func_code.py":
                data = bytearray(f.read_bytes())
                data[len(data) // 2] = 0xAB
                f.write_bytes(bytes(data))
                got = child([("crop", "base")], d)[0]
                return "exception" in got and "exception" not in want
        return None
    finally:
        shutil.rmtree(d, ignore_errors=True)


def replay_finding(ctx, k):
    """F10: populate the cache for one crop call, flip one mantissa byte of a stored coordinate (1.15) and read again"""
    import struct

    if k["id"] == "F22":
        return _replay_f22()
    want = child([("crop", "base")], None, disable=True)[0]
    d = Path(tempfile.mkdtemp(prefix="fv_c17f_", dir="/var/tmp"))
    try:
        child([("crop", "base")], d)
        for f in cache_files(d):
            if f.name != "output.pkl":
                continue
            orig = f.read_bytes()
            pos = orig.find(struct.pack("<d", 1.15))
            if pos < 0:
                continue
            data = bytearray(orig)
            data[pos + 2] ^= 0x10
            f.write_bytes(bytes(data))
            got = child([("crop", "base")], d)[0]
            return "exception" not in got and got.get("result") != want.get("result")
        return None
    finally:
        shutil.rmtree(d, ignore_errors=True)
