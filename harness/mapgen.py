"""Generators of trace maps with exact dyadic coordinates, and the arrangement oracle client.

A *candidate* map is generated in Python; validity (C01's quantifier: exact contacts only,
everything else separated by >= k x snap) is decided by the Lean model (`arr` command of the
driver), never by Python.
"""
from __future__ import annotations

from fractions import Fraction as F
from typing import List, Optional

from harness.common import area_rows, dec, lines, parse_lines, parse_pt, parse_resp, rat

LAB = {"C - E": "C - E", "C - I": "C - I", "I - E": "I - E", "C - C": "C - C", "I - I": "I - I", "E - E": "E - E", "Error": "Error"}


def gen_traces(rng, unit: F, off: F, nmax=8, span=1200):
    """polylines on the grid off + unit*Z/8 with planted abutments at dyadic parameters"""
    n = rng.randint(2, nmax)
    traces = []

    def g(k):
        return off + unit * F(k, 8)

    for _ in range(n):
        if traces and rng.random() < 0.5:
            tgt = rng.choice(traces)
            si = rng.randrange(len(tgt) - 1)
            a, b = tgt[si], tgt[si + 1]
            k = F(rng.randint(8, 56), 64)
            p = (a[0] + k * (b[0] - a[0]), a[1] + k * (b[1] - a[1]))
            l = [p]
        else:
            l = [(g(rng.randint(-span, span)), g(rng.randint(-span, span)))]
        for _ in range(rng.randint(1, 3)):
            if rng.random() < 0.15:  # axis-parallel step
                d = unit * F(rng.randint(-400, 400), 8)
                q = (l[-1][0] + d, l[-1][1]) if rng.random() < 0.5 else (l[-1][0], l[-1][1] + d)
            else:
                q = (l[-1][0] + unit * F(rng.randint(-400, 400), 8), l[-1][1] + unit * F(rng.randint(-400, 400), 8))
            l.append(q)
        if len(set(l)) < len(l):
            continue
        traces.append(l)
    return traces


def gen_area(rng, unit: F, off: F, kinds=("box", "circle", "concave", "hole")):
    """returns (kind, shapely geometry); vertex coordinates are exactly the doubles the implementation sees"""
    from shapely.geometry import Point, Polygon, box

    kind = rng.choice(kinds)
    u, o = float(unit), float(off)
    if kind == "box":
        h = rng.choice([100, 100.5, 87.25])
        g = box(o - h * u, o - h * u, o + h * u, o + h * u)
    elif kind == "circle":
        g = Point(o, o).buffer(rng.choice([110.5, 96.0]) * u, quad_segs=rng.choice([4, 8]))
    elif kind == "concave":
        h = 100 * u
        g = Polygon([(o - h, o - h), (o + h, o - h), (o + h, o + h), (o + 0.25 * h, o + 0.125 * h), (o - h, o + h)])
    else:
        h = 100 * u
        g = Polygon([(o - h, o - h), (o + h, o - h), (o + h, o + h), (o - h, o + h)],
                    [[(o - 0.3 * h, o - 0.25 * h), (o + 0.35 * h, o - 0.25 * h), (o + 0.35 * h, o + 0.3 * h), (o - 0.3 * h, o + 0.3 * h)]])
    return kind, g


def structured_traces(rng, unit: F, off: F):
    """hand-shaped families that random generation rarely produces: mutually abutting (hooked) pairs, spirals,
    a trace with both ends abutting, a comb of abutments on one target; random lattice symmetry"""
    fam = rng.choice(["hook", "spiral", "both_ends", "comb", "mirror_x"])
    if fam == "hook":      # A starts on B, B ends on A
        tr = [[(24, 0), (24, 40), (96, 40), (96, -32)], [(0, 0), (96, 0)]]
    elif fam == "spiral":  # A ends on B, B ends on C, C ends on A
        tr = [[(0, 0), (80, 0)], [(80, -24), (80, 56)], [(104, 56), (16, 56)], [(16, 80), (16, 0)]]
        tr = [[(0, 0), (80, 0)], [(80, 0), (80, 56)], [(80, 56), (16, 56)]]
        tr = [[(0, 0), (96, 0)], [(72, 0), (72, 64)], [(72, 40), (8, 40)], [(32, 40), (32, 0)]]
    elif fam == "both_ends":  # one trace with both ends abutting two others
        tr = [[(0, 0), (0, 80)], [(64, 0), (64, 80)], [(0, 24), (32, 48), (64, 32)]]
    elif fam == "mirror_x":  # two different traces that are mirror images inside one bounding box (crossing at its centre)
        w, h = rng.choice([(48, 32), (64, 64), (40, 72)])
        if rng.random() < 0.5:
            tr = [[(0, 0), (w, h)], [(0, h), (w, 0)]]
        else:
            tr = [[(0, 0), (w // 4, h), (w, h // 2)], [(0, h), (w // 4, 0), (w, h // 2 + 8)]]
            tr = [[(0, 0), (w // 2, h // 4), (w, h)], [(0, h), (w // 2, h - h // 4), (w, 0)]]
        tr.append([(w + 40, -8), (w + 40, h + 8)])
    else:
        tr = [[(0, 0), (120, 0)]] + [[(16 + 24 * i, 0), (16 + 24 * i + rng.choice([-4, 0, 6]), rng.choice([24, -32, 40]))] for i in range(rng.randint(2, 4))]
    sx, sy = rng.choice([1, -1]), rng.choice([1, -1])
    swap = rng.random() < 0.5
    out = []
    for l in tr:
        pts = []
        for x, y in l:
            x, y = sx * (x - 48), sy * (y - 16)
            if swap:
                x, y = y, x
            pts.append((off + unit * F(x), off + unit * F(y)))
        out.append(pts)
    rng.shuffle(out)
    return out


def arr_request(traces, areas, t, k=50):
    """k: separation margin in multiples of t (int or "n/d" string)"""
    return f"arr t={rat(t)} k={k} areas={area_rows(areas)} traces={lines(traces)}"


class Arrangement:
    def __init__(self, resp: str):
        r = parse_resp(resp)
        self.raw = resp
        self.valid = r.get("valid") == "1"
        self.reason = dec(r.get("invalid", "")) if not self.valid else ""
        self.wellformed = r.get("wellformed") == "1"
        self.quiet = r.get("quiet") == "1"  # hypothesis of C01_snap_stage_identity holds for the clipped pieces
        self.nodes = []
        self.branches = []
        self.pieces = []
        self.source = []
        if self.valid:
            if r.get("nodes"):
                for tok in r["nodes"].split(";"):
                    p, c = tok.rsplit(":", 1)
                    self.nodes.append((parse_pt(p), c))
            if r.get("branches"):
                for tok in r["branches"].split(";"):
                    lab, p, q = tok.split(":")
                    self.branches.append((dec(lab), parse_pt(p), parse_pt(q)))
            self.xy = []  # (point, class, [pieces through], ending piece or None)
            if r.get("xy"):
                for tok in r["xy"].split(";"):
                    pp, c, thr, ending = tok.split(":")
                    self.xy.append((parse_pt(pp), c, [int(i) for i in thr.split(",")], None if ending == "-" else int(ending)))
            self.pieces = parse_lines(r.get("pieces", ""))
            self.source = [int(x) for x in r["source"].split(",")] if r.get("source") else []


def valid_maps(ctx, rng, count, t, unit=F(1), off=F(0), area_kinds=("box", "circle", "concave", "hole"), nmax=8, max_rounds=60, k=50, structured=0.15):
    """yield (traces as Fractions, area geometry, kind, Arrangement) for `count` valid maps"""
    out = []
    rejected = {}
    rounds = 0
    while len(out) < count and rounds < max_rounds:
        rounds += 1
        cands = []
        for _ in range(max(64, 6 * (count - len(out)))):
            tr = structured_traces(rng, unit, off) if rng.random() < structured else gen_traces(rng, unit, off, nmax=nmax)
            if len(tr) < 2:
                continue
            kind, area = gen_area(rng, unit, off, area_kinds)
            cands.append((tr, area, kind))
        resps = ctx.driver.parallel([arr_request(tr, [a], t, k) for tr, a, _ in cands])
        for (tr, a, kind), resp in zip(cands, resps):
            ar = Arrangement(resp)
            if ar.valid and ar.branches:
                out.append((tr, a, kind, ar))
                if len(out) >= count:
                    break
            elif not ar.valid:
                rejected[ar.reason] = rejected.get(ar.reason, 0) + 1
    return out, rejected


def to_float_lines(traces):
    from shapely.geometry import LineString

    return [LineString([(float(x), float(y)) for x, y in l]) for l in traces]


def match_points(model_pts, impl_pts, tol):
    """greedy bijection between two lists of (point, label); returns (unmatched_model, unmatched_impl)"""
    left = list(impl_pts)
    um = []
    for (p, c) in model_pts:
        px, py = float(p[0]), float(p[1])
        hit = None
        for i, (q, d) in enumerate(left):
            if c == d and abs(q[0] - px) <= tol and abs(q[1] - py) <= tol:
                hit = i
                break
        if hit is None:
            um.append((p, c))
        else:
            left.pop(hit)
    return um, left


def match_branches(model_br, impl_br, tol):
    left = list(impl_br)
    um = []

    def near(p, q):
        return abs(float(p[0]) - q[0]) <= tol and abs(float(p[1]) - q[1]) <= tol

    for (lab, p, q) in model_br:
        hit = None
        for i, (l2, a, b) in enumerate(left):
            if lab == l2 and ((near(p, a) and near(q, b)) or (near(p, b) and near(q, a))):
                hit = i
                break
        if hit is None:
            um.append((lab, p, q))
        else:
            left.pop(hit)
    return um, left
