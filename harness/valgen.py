"""Generators of trace frames for the validation properties (C09, C13, C02, C10): isolated
gadgets, each a small crisp configuration with a planted defect, placed far apart."""
from __future__ import annotations

T = 0.01  # default snap threshold of Validation


def gadgets():
    """name -> list of geometries (shapely or None) around the origin, extent < 20"""
    from shapely.geometry import LineString, MultiLineString

    L = LineString
    return {
        "valid_x": [L([(-5, 0), (5, 0)]), L([(0, -5), (0, 5)])],
        "valid_y": [L([(-5, 0), (5, 0)]), L([(1, 0), (1, 6)])],
        "valid_single": [L([(-4, -3), (2, 1), (6, 2)])],
        "vnode": [L([(0, 0), (5, 1)]), L([(0, 0), (-4, 3)])],
        # one fracture digitised in three / four pieces: the inner pieces share an END with a different trace at each of their ends
        "vchain3": [L([(-5, -1), (-1, 0)]), L([(-1, 0), (1, 0.75), (3, 1)]), L([(3, 1), (6, 1.5)])],
        "vchain4": [L([(-6, 2), (-3, 0)]), L([(-3, 0), (0, 1)]), L([(4, -1), (0, 1)]), L([(4, -1), (7, 3)])],
        "multijunction": [L([(-5, 0), (5, 0)]), L([(0, -5), (0, 5)]), L([(-4, -4), (4, 4)])],
        "stacked": [L([(-5, 0), (5, 0)]), L([(-2, 0), (8, 0)])],
        # a trace lying ON another for part of its length whose free end dangles inside the snap error band: the under/overlap validator reports it as STACKED
        "stacked_dangling": [L([(-5, 0), (5, 0)]), L([(-2, 0), (2, 0), (2.5, 0.0105)])],
        "cuts_itself": [L([(-5, 0), (5, 0), (5, 5), (0, -5)])],
        "ring": [L([(0, 0), (5, 0), (5, 5), (0, 0)])],
        "underlap": [L([(-5, 0), (5, 0)]), L([(0, 3), (0, 0.0105)])],
        "underlap_diag": [L([(-5, -5), (5, 5)]), L([(-3, 3), (-0.0074246, 0.0074246)])],
        "overlap": [L([(-5, 0), (5, 0)]), L([(0, 3), (0, -0.0105)])],
        "double_overshoot": [L([(-5, 0), (5, 0)]), L([(-2, 3), (-2, -0.005)]), L([(2, 3), (2.5, -0.005)])],
        "overshoot_vnode": [L([(-5, 0), (5, 0)]), L([(-2, 3), (-2, -0.005)]), L([(5, 0), (7, 2)])],
        # one trace (the first) in two junction defects: a three-trace crossing and, elsewhere, a crossing trace dangling 0.005 past it
        "overshoot_multijunction": [L([(-5, 0), (5, 0)]), L([(2, 3), (2, -0.005)]), L([(-3, -2), (-3, 2)]), L([(-4, -1), (-2, 1)])],
        "multicross": [L([(-6, 0), (6, 0)]), L([(-5, -1), (-3, 1), (-1, -1), (1, 1), (3, -1)])],
        "sharp": [L([(0, 0), (5, 0), (0.5, 0.8)])],
        "null_none": [None],
        "null_empty": [L()],
        "mls_mergeable": [MultiLineString([[(0, 0), (1, 1)], [(1, 1), (2, 3)]])],
        "mls_mergeable_rev": [MultiLineString([[(1, 1), (0, 0)], [(1, 1), (2, 3)]])],
        "mls_mergeable_nested": [MultiLineString([[(1, 1), (2, 3)], [(4, 4), (2, 3)], [(0, 0), (1, 1)]])],
        "mls_unmergeable": [MultiLineString([[(0, 0), (1, 1)], [(3, 3), (4, 5)]])],
        "mls_branching": [MultiLineString([[(0, 0), (1, 1)], [(1, 1), (2, 3)], [(1, 1), (3, 0)]])],
        "z_line": [L([(-3, -3, 7.5), (3, 2, 8.0)])],
        # a mergeable multi-part line that takes part in a node defect only AFTER it has been merged by the fix
        "mls_vnode": [MultiLineString([[(0, 0), (1, 1)], [(1, 1), (2, 3)]]), L([(2, 3), (6, 3)])],
        "mls_vnode_start": [MultiLineString([[(1, 1), (2, 3)], [(0, 0), (1, 1)]]), L([(0, 0), (-4, 1)])],
        # ... or in a snap / stacking / crosscut defect of ANOTHER (single-part) row, which finds the merged line only through its candidates
        "mls_underlap": [MultiLineString([[(-5, 0), (0.5, 0)], [(0.5, 0), (5, 0)]]), L([(1, 3), (1, 0.0105)])],
        "mls_overlap": [L([(-1, 3), (-1, -0.0105)]), MultiLineString([[(0.5, 0), (5, 0)], [(-5, 0), (0.5, 0)]])],
        "mls_stacked": [MultiLineString([[(-5, 0), (0.5, 0)], [(0.5, 0), (5, 0)]]), L([(-2, 0), (8, 0)])],
        "mls_multicross": [L([(-5, -1), (-3, 1), (-1, -1), (1, 1), (3, -1)]), MultiLineString([[(-6, 0), (0.5, 0)], [(0.5, 0), (6, 0)]])],
        "mls_multijunction": [MultiLineString([[(-4, -4), (0, 0)], [(0, 0), (4, 4)]]), L([(-5, 0), (5, 0)]), L([(0, -5), (0, 5)])],
    }


def place(geom, dx, dy):
    from shapely import affinity

    if geom is None or geom.is_empty:
        return geom
    return affinity.translate(geom, xoff=dx, yoff=dy)


def kind_code(g):
    """wire code of the Validation model: 0 line, 1 empty line, 2 unmergeable multi, 3 mergeable multi, 4 None, 5 other"""
    from shapely.geometry import LineString, MultiLineString
    from shapely.ops import linemerge

    if g is None:
        return 4
    if isinstance(g, LineString):
        return 1 if g.is_empty else 0
    if isinstance(g, MultiLineString):
        return 3 if isinstance(linemerge(g), LineString) else 2
    return 5


def random_frame(rng, names=None, nmax=6, index_mode=None, with_stale=None):
    """a frame made of gadgets placed on a coarse grid (>= 100 apart)"""
    import geopandas as gpd

    G = gadgets()
    pool = list(G) if names is None else names
    k = rng.randint(1, nmax)
    chosen = [rng.choice(pool) for _ in range(k)]
    geoms, tags = [], []
    cells = rng.sample([(i, j) for i in range(-3, 4) for j in range(-3, 4)], k)
    for name, (i, j) in zip(chosen, cells):
        for g in G[name]:
            geoms.append(place(g, 100.0 * i, 100.0 * j))
            tags.append(name)
    order = list(range(len(geoms)))
    rng.shuffle(order)
    geoms = [geoms[i] for i in order]
    tags = [tags[i] for i in order]
    n = len(geoms)
    mode = index_mode or rng.choice(["default"] * 6 + ["permuted", "strings", "offset", "duplicates"])
    if mode == "default" or n < 3:
        index = list(range(n))
        mode = "default"
    elif mode == "permuted":
        mid = list(range(1, n - 1))
        rng.shuffle(mid)
        index = [0] + mid + [n - 1]
    elif mode == "strings":
        index = [f"r{i}" for i in range(n)]
    elif mode == "duplicates":  # repeated labels, e.g. frames concatenated without ignore_index
        index = [i % max(2, n // 2) for i in range(n)]
    else:
        index = [i + 10 for i in range(n)]
    data = {"tag": tags, "num": [i * 0.5 for i in range(n)], "length": [float(i) for i in range(n)]}
    stale = rng.random() < 0.3 if with_stale is None else with_stale
    if stale:
        data["VALIDATION_ERRORS"] = [("STALE ERROR",)] * n
    gdf = gpd.GeoDataFrame(data, geometry=geoms, index=index)
    return gdf, {"gadgets": chosen, "index": mode, "stale": stale}


def area_for(gdf):
    import geopandas as gpd
    from shapely.geometry import box

    return gpd.GeoDataFrame(geometry=[box(-1000, -1000, 1000, 1000)])
