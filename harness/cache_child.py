"""Child process of stream S17: performs cached operations with whatever cache environment the
parent set, prints one JSON line per call: a digest of the result and of the caller's data after the call."""
import json
import os
import sys
import warnings

warnings.filterwarnings("ignore")
import logging  # noqa: E402

logging.disable(logging.CRITICAL)
sys.path.insert(0, os.environ.get("VERIF_REPO", "/repo"))


def inputs(name):
    import geopandas as gpd
    from shapely.geometry import LineString, box

    base = [LineString([(-10, 0.5), (10, 1.5)]), LineString([(0, -8), (0.5, 8)]), LineString([(3, 1.15), (3, 12)]), LineString([(-4, -4), (-2, 5), (-12, 7)])]
    idx = [10, 20, 30, 40]
    attrs = {"a": [1, 2, 3, 4]}
    area = box(-6, -6, 6, 6)
    crs = None
    t = 0.01
    if name == "coord":
        base[1] = LineString([(0, -8), (0.5, 8.0000001)])
    elif name == "attr":
        attrs = {"a": [1, 2, 3, 5]}
    elif name == "order":
        base = [base[1], base[0], base[2], base[3]]
    elif name == "crs":
        crs = "EPSG:3067"
    elif name == "threshold":
        t = 0.011
    elif name == "area":
        area = box(-6, -6, 6, 6.5)
    elif name == "mls":
        from shapely.geometry import MultiLineString

        base[3] = MultiLineString([[(-4, -4), (-2, 5)], [(-2, 5), (-12, 7)]])
    traces = gpd.GeoDataFrame(attrs, geometry=base, index=idx, crs=("EPSG:3067" if name == "crs_traces_only" else crs))
    areas = gpd.GeoDataFrame(geometry=[area], crs=("EPSG:3067" if name == "crs_area_only" else crs))
    return traces, areas, t


def digest_geoms(gs):
    return [None if g is None else g.wkt for g in gs]


def call(op, name):
    from fractopo import general
    from fractopo.branches_and_nodes import branches_and_nodes

    traces, areas, t = inputs(name)
    if op in ("crop", "crop_allow", "crop_nodata"):
        # the same crop with each of its flags set the other way: calls that differ in a flag only are different calls
        out = general.crop_to_target_areas(traces, areas, keep_column_data=(op != "crop_nodata"), allow_multilinestring_input=(op == "crop_allow"))
        res = {"geoms": digest_geoms(out.geometry.values), "a": [int(x) for x in out["a"]] if "a" in getattr(out, "columns", []) else None}
    elif op == "nodes":
        tr = traces.reset_index(drop=True)
        i, e = general.determine_general_nodes(tr)
        res = {"inter": [[p.wkt for p in tup] for tup in i], "ends": [[p.wkt for p in tup] for tup in e]}
    elif op == "junctions":
        tr = traces.reset_index(drop=True)
        i, e = general.determine_general_nodes(tr)
        allnodes = [tuple(list(a) + list(b)) for a, b in zip(i, e)]
        res = {"junctions": sorted(general.determine_node_junctions(allnodes, t, 1.1, 2))}
    elif op == "topology":
        b, n = branches_and_nodes(traces, areas, t, already_clipped=False)
        res = {"branches": digest_geoms(b.geometry.values), "conn": list(b["Connection"]), "nodes": digest_geoms(n.geometry.values), "cls": list(n["Class"])}
    elif op == "grid":
        # contour-grid sampling over a caller-owned precursor grid (2 x 2 cells): the caller's grid is part of the caller's data
        import geopandas as gpd
        from shapely.geometry import box as _box

        from fractopo.analysis.contour_grid import run_grid_sampling

        b, n = branches_and_nodes(traces, areas, t, already_clipped=False)
        grid = gpd.GeoDataFrame({"cell": [0, 1, 2, 3]}, geometry=[_box(x, y, x + 6, y + 6) for x in (-6, 0) for y in (-6, 0)], index=[7, 5, 3, 1], crs=traces.crs)
        out = run_grid_sampling(traces=traces, branches=b, nodes=n, cell_width=6.0, snap_threshold=t, precursor_grid=grid)
        num = [c for c in out.columns if c not in ("geometry", "cell")]
        res = {"cols": sorted(out.columns), "index": [int(x) for x in out.index],
               "values": {c: [None if v != v else round(float(v), 9) for v in out[c]] for c in sorted(num)[:12]}}
        extra = {"grid_cols": sorted(grid.columns), "grid_index": [int(x) for x in grid.index]}
    else:
        raise ValueError(op)
    side = {"index": [int(x) for x in traces.index], "cols": list(traces.columns), "geoms": digest_geoms(traces.geometry.values),
            "area_index": [int(x) for x in areas.index], "crs": str(traces.crs), "area_crs": str(areas.crs)}
    if op == "grid":
        side.update(extra)
    return {"result": res, "caller": side}


if __name__ == "__main__":
    for spec in sys.argv[1:]:
        op, name = spec.split(":")
        try:
            print(json.dumps({"op": op, "input": name, **call(op, name)}, sort_keys=True), flush=True)
        except Exception as e:
            print(json.dumps({"op": op, "input": name, "exception": f"{type(e).__name__}: {str(e)[:200]}"}), flush=True)
