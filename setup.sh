#!/bin/bash
# Build the Lean library (models + property theorems) and the model driver from files on disk. Offline.
cd "$(dirname "$0")" || exit 2
python3 translate/run.py --repo "${VERIF_REPO:-/repo}" 2>&1 | grep -v conda.cli
cd lean && lake build 2>&1 | grep -v conda.cli | tail -15
test -x .lake/build/bin/driver
