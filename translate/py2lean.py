"""py2lean -- translate a whitelisted subset of Python (fractopo) to pure Lean 4 definitions.

Reads source text with `ast` only (never imports the code, so it also works on
code that does not run).  The subset and the translation scheme are described in
DESIGN.md section 3.1.  Everything that cannot be translated raises
`Untranslatable`; the caller records that as the broken obligation
``translate:<item>``.

Conventions of the output:
* pure `let` / `if then else` form, no `do` blocks;
* Python float literals are read as *decimal* rationals (2.01 -> 201/100);
* a function that can `raise` returns `Except String a`;
* `np.nan`-capable floats are `Val` (num q | nan) from FractopoModel.Basic.PyPrelude;
* dict literals are association lists in insertion order.
"""
from __future__ import annotations

import ast
import re
from fractions import Fraction


class Untranslatable(Exception):
    pass


LEAN_KEYWORDS = {"end", "from", "at", "fun", "open", "in", "do", "then", "else", "if", "let", "have", "show", "with",
                 "match", "where", "by", "section", "namespace", "variable", "instance", "structure", "class",
                 "theorem", "def", "example", "axiom", "import", "export", "local", "prefix", "infix", "notation",
                 "mutual", "partial", "unsafe", "private", "protected", "deriving", "extends", "for", "universe", "Type", "Prop", "Sort"}


def li(name: str) -> str:
    """Lean identifier for a Python identifier"""
    return name + "_" if name in LEAN_KEYWORDS else name


def dec_to_rat(src: str) -> str:
    f = Fraction(src.replace("_", ""))  # decimal reading of the literal
    if f.denominator == 1:
        return f"({f.numerator} : Rat)"
    return f"(({f.numerator} : Rat) / {f.denominator})"


NUMERIC = ("Rat", "Nat", "Int")


class Ctx:
    def __init__(self, types, consts, raises, source, default_num=None):
        self.types = dict(types)  # python var / expression text -> lean type
        self.consts = consts  # python name / expression text -> lean expr
        self.raises = raises  # function can raise -> Except String
        self.source = source
        self.default_num = default_num

    def typ(self, name):
        return self.types.get(name)


BINOPS = {ast.Add: "+", ast.Sub: "-", ast.Mult: "*", ast.Div: "/"}
BOOL_BITOPS = {ast.BitOr: "||", ast.BitAnd: "&&"}
REL = {ast.Eq: "=", ast.NotEq: "≠", ast.Lt: "<", ast.LtE: "≤", ast.Gt: ">", ast.GtE: "≥"}


def seg(ctx, node):
    s = ast.get_source_segment(ctx.source, node)
    if s is None:
        s = ast.unparse(node)
    return s


def norm(s: str) -> str:
    return re.sub(r"\s+", "", s)


def lookup_const(ctx, node):
    s = norm(seg(ctx, node))
    for k, v in ctx.consts.items():
        if norm(k) == s:
            return v
    return None


def lookup_type(ctx, node):
    s = norm(seg(ctx, node))
    for k, v in ctx.types.items():
        if norm(k) == s:
            return v
    return None


def infer(ctx: Ctx, e):
    """Best-effort numeric/bool type of an expression (None = unknown / polymorphic literal)."""
    t = lookup_type(ctx, e)
    if t:
        return t
    if isinstance(e, ast.Constant):
        if isinstance(e.value, bool):
            return "Bool"
        if isinstance(e.value, float):
            return "Rat"
        if isinstance(e.value, str):
            return "String"
        return None
    if isinstance(e, ast.Name):
        return ctx.typ(e.id)
    if isinstance(e, ast.BinOp):
        if isinstance(e.op, ast.Div):
            lt, rt = infer(ctx, e.left), infer(ctx, e.right)
            if "Val" in (lt, rt):
                return "Val"
            return "Rat"
        lt, rt = infer(ctx, e.left), infer(ctx, e.right)
        for cand in ("Val", "Rat", "Int", "Nat"):
            if cand in (lt, rt):
                return cand
        return lt or rt
    if isinstance(e, ast.UnaryOp):
        if isinstance(e.op, ast.Not):
            return "Bool"
        return infer(ctx, e.operand)
    if isinstance(e, ast.IfExp):
        return infer(ctx, e.body) or infer(ctx, e.orelse)
    if isinstance(e, (ast.Compare, ast.BoolOp)):
        return "Bool"
    if isinstance(e, ast.Call):
        fn = seg(ctx, e.func)
        if fn == "len":
            return "Nat"
        if fn in ("float",):
            return "Rat"
        if fn in ("abs", "int") and e.args:
            return infer(ctx, e.args[0])
        if fn in ("min", "max") and e.args:
            for a in e.args:
                t = infer(ctx, a)
                if t:
                    return t
        if fn.endswith((".sum", ".min", ".max", ".mean")):
            return "Rat"
        if fn in ("np.sqrt", "math.sqrt", "sqrt"):
            return "Rat"
        if fn in ("math.ceil", "np.ceil"):
            return "Int"
        if fn == "np.arange":
            return "List Rat"
    return None


def expr(ctx: Ctx, e, want=None) -> str:
    """Translate an expression. Bool-valued expressions are Lean `Bool`."""
    c = lookup_const(ctx, e)
    if c is not None and not isinstance(e, ast.Constant):
        if want == "Val" and lookup_type(ctx, e) in NUMERIC:
            return f"(Val.num {c})"
        return c
    if isinstance(e, ast.Constant):
        v = e.value
        if isinstance(v, bool):
            return "true" if v else "false"
        if isinstance(v, int):
            w = want if want in NUMERIC else ctx.default_num
            if want == "Val":
                return f"(Val.num ({v} : Rat))"
            if w is None:
                raise Untranslatable(f"cannot type integer literal {v}")
            if v < 0 and w == "Nat":
                raise Untranslatable("negative Nat literal")
            return f"({v} : {w})"
        if isinstance(v, float):
            r = dec_to_rat(seg(ctx, e))
            if want in ("Nat", "Int"):
                f = Fraction(seg(ctx, e).replace("_", ""))
                if f.denominator != 1:
                    raise Untranslatable(f"float literal {v} in {want} context")
                return f"({f.numerator} : {want})"
            return f"(Val.num {r})" if want == "Val" else r
        if isinstance(v, str):
            return '"' + v.replace("\\", "\\\\").replace('"', '\\"') + '"'
        if v is None:
            return "none"
        raise Untranslatable(f"constant {v!r}")
    if isinstance(e, ast.Name):
        t = ctx.typ(e.id)
        if want == "Val" and t in NUMERIC:
            return f"(Val.num {cast(ctx, li(e.id), t, 'Rat')})"
        if want in NUMERIC and t in NUMERIC and t != want:
            return cast(ctx, li(e.id), t, want)
        return li(e.id)
    if isinstance(e, ast.Attribute):
        raise Untranslatable(f"attribute {seg(ctx, e)}")
    if isinstance(e, ast.BinOp):
        if type(e.op) in BOOL_BITOPS and infer(ctx, e.left) == "Bool":
            return f"({expr(ctx, e.left)} {BOOL_BITOPS[type(e.op)]} {expr(ctx, e.right)})"
        t = want if want in NUMERIC + ("Val",) else infer(ctx, e)
        if t is None:
            t = ctx.default_num
        if isinstance(e.op, ast.Pow) and isinstance(e.right, ast.Constant) and e.right.value == 2:
            a = expr(ctx, e.left, t)
            return f"({a} * {a})"
        if type(e.op) not in BINOPS:
            raise Untranslatable(f"binop {type(e.op).__name__}")
        if isinstance(e.op, ast.Div) and t not in ("Rat", "Val"):
            # Python true division never is integer division
            if want in (None, "Rat"):
                t = "Rat"
            else:
                raise Untranslatable(f"true division in {t} context: {seg(ctx, e)}")
        if isinstance(e.op, ast.Sub) and t == "Nat":
            raise Untranslatable(f"subtraction on Nat: {seg(ctx, e)}")
        return f"({expr(ctx, e.left, t)} {BINOPS[type(e.op)]} {expr(ctx, e.right, t)})"
    if isinstance(e, ast.UnaryOp):
        if isinstance(e.op, ast.Not):
            return f"(!{expr(ctx, e.operand)})"
        if isinstance(e.op, ast.USub):
            t = want if want in NUMERIC + ("Val",) else infer(ctx, e)
            if t == "Nat":
                raise Untranslatable("negation on Nat")
            return f"(-{expr(ctx, e.operand, t)})"
        raise Untranslatable("unaryop")
    if isinstance(e, ast.BoolOp):
        op = " && " if isinstance(e.op, ast.And) else " || "
        return "(" + op.join(expr(ctx, v) for v in e.values) + ")"
    if isinstance(e, ast.Compare):
        parts = []
        left = e.left
        for op, right in zip(e.ops, e.comparators):
            if isinstance(op, (ast.In, ast.NotIn)):
                r = expr(ctx, right)
                l = expr(ctx, left)
                if isinstance(right, ast.Name) and ctx.typ(right.id) == "Dict":
                    s = f"(dictHas {r} {l})"
                else:
                    s = f"(List.elem {l} {r})"
                parts.append(s if isinstance(op, ast.In) else f"(!{s})")
            elif isinstance(op, (ast.Is, ast.IsNot)):
                lt = infer(ctx, left) or ""
                if isinstance(right, ast.Constant) and right.value is None and lt.startswith("Option"):
                    s = f"(Option.isNone {expr(ctx, left)})"
                    parts.append(s if isinstance(op, ast.Is) else f"(!{s})")
                elif isinstance(right, ast.Constant) and right.value is None and lt:
                    parts.append("false" if isinstance(op, ast.Is) else "true")
                else:
                    raise Untranslatable("is")
            else:
                nt = infer(ctx, left) or infer(ctx, right) or ctx.default_num
                if nt == "Bool" or nt == "String":
                    rel = "==" if isinstance(op, ast.Eq) else "!=" if isinstance(op, ast.NotEq) else None
                    if rel is None:
                        raise Untranslatable("ordering on Bool/String")
                    parts.append(f"({expr(ctx, left)} {rel} {expr(ctx, right)})")
                elif nt == "Val":
                    parts.append(f"(Val.cmp{type(op).__name__} {expr(ctx, left, 'Val')} {expr(ctx, right, 'Val')})")
                else:
                    if nt is None:
                        raise Untranslatable(f"cannot type comparison {seg(ctx, e)}")
                    parts.append(f"(decide ({expr(ctx, left, nt)} {REL[type(op)]} {expr(ctx, right, nt)}))")
            left = right
        return parts[0] if len(parts) == 1 else "(" + " && ".join(parts) + ")"
    if isinstance(e, ast.IfExp):
        w = want or infer(ctx, e)
        return f"(if {expr(ctx, e.test)} then {expr(ctx, e.body, w)} else {expr(ctx, e.orelse, w)})"
    if isinstance(e, (ast.Tuple, ast.List)):
        if want == "tuple" or (want and "×" in want):
            return "(" + ", ".join(expr(ctx, x) for x in e.elts) + ")"
        inner = None
        if want and want.startswith("List "):
            inner = want[5:].strip("()")
        return "[" + ", ".join(expr(ctx, x, inner) for x in e.elts) + "]"
    if isinstance(e, ast.Subscript):
        base = expr(ctx, e.value)
        bt = infer(ctx, e.value) or ""
        if isinstance(e.slice, ast.Constant) and isinstance(e.slice.value, int):
            if bt.startswith("List"):
                k = e.slice.value
                if k < 0:
                    raise Untranslatable("negative list index")
                return f"(List.getD {base} {k} default)"
            if "×" in bt:
                n = len(bt.split("×"))
                k = e.slice.value
                if k < 0:
                    k += n
                # right-nested pairs
                proj = ".2" * k + (".1" if k < n - 1 else "")
                return f"{base}{proj}"
        raise Untranslatable(f"subscript {seg(ctx, e)}")
    if isinstance(e, ast.Call):
        return call(ctx, e, want)
    if isinstance(e, ast.Dict):
        items = []
        for k, v in zip(e.keys, e.values):
            if k is None:  # {**a, **b}
                items.append(("spread", expr(ctx, v)))
            else:
                items.append(("kv", f"({expr(ctx, k)}, {as_val(ctx, v)})"))
        out, cur = [], []
        for kind, t in items:
            if kind == "kv":
                cur.append(t)
            else:
                if cur:
                    out.append("[" + ", ".join(cur) + "]")
                    cur = []
                out.append(t)
        if cur:
            out.append("[" + ", ".join(cur) + "]")
        return "(" + " ++ ".join(out) + ")" if out else "[]"
    if isinstance(e, ast.DictComp):
        g = e.generators[0]
        out = expr(ctx, g.iter)
        pat = pattern(g.target)
        for cond in g.ifs:
            out = f"(List.filter (fun {pat} => {expr(ctx, cond)}) {out})"
        return f"(List.map (fun {pat} => ({expr(ctx, e.key)}, {as_val(ctx, e.value)})) {out})"
    if isinstance(e, (ast.ListComp, ast.GeneratorExp)):
        if len(e.generators) != 1:
            raise Untranslatable("multi-generator comprehension")
        g = e.generators[0]
        out = expr(ctx, g.iter)
        pat = pattern(g.target)
        for cond in g.ifs:
            out = f"(List.filter (fun {pat} => {expr(ctx, cond)}) {out})"
        inner = want[5:].strip("()") if want and want.startswith("List ") else None
        return f"(List.map (fun {pat} => {expr(ctx, e.elt, inner)}) {out})"
    raise Untranslatable(f"expr {type(e).__name__}: {seg(ctx, e)}")


def cast(ctx, s, frm, to):
    if frm == to:
        return s
    if to == "Rat" and frm in ("Nat", "Int"):
        return f"(({s} : {frm}) : Rat)"
    if to == "Int" and frm == "Nat":
        return f"(({s} : Nat) : Int)"
    raise Untranslatable(f"cast {frm} -> {to}")


def is_val_expr(ctx, e):
    if norm(seg(ctx, e)) in ("np.nan",):
        return True
    return infer(ctx, e) == "Val" or any(
        isinstance(n, ast.Name) and ctx.typ(n.id) == "Val" for n in ast.walk(e)
    )


def as_val(ctx, e):
    if norm(seg(ctx, e)) == "np.nan":
        return "Val.nan"
    if is_val_expr(ctx, e):
        return expr(ctx, e, "Val")
    return f"Val.num {expr(ctx, e, 'Rat')}"


def pattern(t):
    if isinstance(t, ast.Name):
        return li(t.id)
    if isinstance(t, ast.Tuple):
        return "(" + ", ".join(pattern(x) for x in t.elts) + ")"
    raise Untranslatable("pattern")


def call(ctx, e, want):
    fn = norm(seg(ctx, e.func))
    args = e.args
    if e.keywords and fn not in ctx.consts:
        raise Untranslatable(f"keyword arguments in call {fn}")
    if fn == "zip" and len(args) == 2:
        return f"(List.zip {expr(ctx, args[0])} {expr(ctx, args[1])})"
    if fn == "len" and len(args) == 1:
        w = want if want in NUMERIC else (ctx.default_num or "Nat")
        inner = f"(({expr(ctx, args[0])}).length : Nat)"
        return inner if w == "Nat" else f"({inner} : {w})"
    if fn == "sum" and len(args) == 1:
        return f"(List.sum {expr(ctx, args[0], 'List ' + (want or 'Rat'))})"
    if fn == "any" and len(args) == 1:
        return f"(List.any {expr(ctx, args[0])} id)"
    if fn == "all" and len(args) == 1:
        return f"(List.all {expr(ctx, args[0])} id)"
    if fn == "abs" and len(args) == 1:
        t = want if want in NUMERIC else infer(ctx, args[0])
        a = expr(ctx, args[0], t)
        if t == "Nat":
            return a
        return f"(if decide ({a} < 0) then -{a} else {a})"
    if fn in ("min", "max") and len(args) == 2:
        t = want if want in NUMERIC else (infer(ctx, args[0]) or infer(ctx, args[1]))
        return f"({fn} {expr(ctx, args[0], t)} {expr(ctx, args[1], t)})"
    if fn in ("numpy_to_python_type", "general.numpy_to_python_type") and len(args) == 1:
        return expr(ctx, args[0], want)  # identity on values
    if fn in ("float", "int", "str") and len(args) == 1:
        if fn == "int" and infer(ctx, args[0]) == "Rat":
            raise Untranslatable("int() of a Rat")
        return expr(ctx, args[0], want)
    if fn.endswith(".sum") and not args:
        return f"(List.sum {expr(ctx, e.func.value)})"
    if fn.endswith(".min") and not args:
        return f"(listMin {expr(ctx, e.func.value)})"
    if fn.endswith(".max") and not args:
        return f"(listMax {expr(ctx, e.func.value)})"
    if fn.endswith(".mean") and not args:
        return f"(listMean {expr(ctx, e.func.value)})"
    if fn == "np.isnan":
        return f"(Val.isNan {expr(ctx, args[0], 'Val')})"
    if fn in ("np.sqrt", "math.sqrt", "sqrt"):
        return f"(sqrt {expr(ctx, args[0], 'Rat')})"
    if fn in ("math.ceil", "np.ceil") and len(args) == 1:
        inner = f"(Rat.ceil {expr(ctx, args[0], 'Rat')})"
        return inner if want in (None, "Int") else cast(ctx, inner, "Int", want)
    if fn == "np.arange" and len(args) == 3:
        return f"(pyArange {expr(ctx, args[0], 'Rat')} {expr(ctx, args[1], 'Rat')} {expr(ctx, args[2], 'Rat')})"
    if fn in ctx.consts:
        sig = ctx.types.get(fn + "()")  # optional list of argument types
        out = []
        for i, a in enumerate(args):
            out.append(expr(ctx, a, sig[i] if sig else None))
        return f"({ctx.consts[fn]} " + " ".join(out) + ")"
    raise Untranslatable(f"call {fn}")


def assigned(stmts):
    out = []
    for s in stmts:
        for n in ast.walk(s):
            if isinstance(n, ast.Name) and isinstance(n.ctx, ast.Store) and n.id not in out:
                out.append(n.id)
    return out


def always_exits(stmts):
    if not stmts:
        return False
    last = stmts[-1]
    if isinstance(last, (ast.Return, ast.Raise)):
        return True
    if isinstance(last, ast.If):
        return always_exits(last.body) and always_exits(last.orelse)
    return False


def may_exit(stmts):
    return any(isinstance(n, (ast.Return, ast.Raise)) for st in stmts for n in ast.walk(st))


def is_log(s):
    return (
        isinstance(s, ast.Expr)
        and isinstance(s.value, ast.Call)
        and re.match(r"(log|logging)\.", ast.unparse(s.value.func) or "") is not None
    )


def block(ctx: Ctx, stmts, ret_wrap, ind="  ") -> str:
    """Translate a statement list in tail position."""
    if not stmts:
        raise Untranslatable("fell off the end of function")
    s, rest = stmts[0], stmts[1:]
    if is_log(s) or (isinstance(s, ast.Expr) and isinstance(s.value, ast.Constant)) or isinstance(s, ast.Pass):
        return block(ctx, rest, ret_wrap, ind)
    if isinstance(s, ast.Assert):
        txt = seg(ctx, s)
        if not ctx.raises or "isinstance" in txt or "all(" in txt or "len(" in txt:
            return block(ctx, rest, ret_wrap, ind)
        return f'if !({expr(ctx, s.test)}) then .error "AssertionError" else\n{ind}' + block(
            ctx, rest, ret_wrap, ind
        )
    if isinstance(s, ast.Return):
        if isinstance(s.value, ast.Name) and s.value.id == "__yield__":
            return ret_wrap(None)
        return ret_wrap(expr(ctx, s.value, ctx.types.get("return")))
    if isinstance(s, ast.Raise):
        if not ctx.raises:
            raise Untranslatable("raise in a function declared non-raising")
        name = s.exc.func.id if isinstance(s.exc, ast.Call) else ast.unparse(s.exc)
        return f'.error "{name}"'
    if isinstance(s, (ast.Assign, ast.AnnAssign)):
        if isinstance(s, ast.Assign) and len(s.targets) != 1:
            raise Untranslatable("chained assignment")
        tgt = s.targets[0] if isinstance(s, ast.Assign) else s.target
        if isinstance(tgt, ast.Tuple):
            if not isinstance(s.value, ast.Tuple) or len(s.value.elts) != len(tgt.elts):
                raise Untranslatable("tuple assignment from non-tuple")
            names = "(" + ", ".join(li(t.id) for t in tgt.elts) + ")"
            vals = []
            for t, x in zip(tgt.elts, s.value.elts):
                ty = ctx.typ(t.id) or infer(ctx, x)
                if ty:
                    ctx.types[t.id] = ty
                vals.append(as_val(ctx, x) if ty == "Val" else expr(ctx, x, ty))
            val = "(" + ", ".join(vals) + ")"
            tnames = {t.id for t in tgt.elts}
            rhs_names = {n.id for x in s.value.elts for n in ast.walk(x) if isinstance(n, ast.Name)}
            if not (tnames & rhs_names):
                # independent right-hand sides: plain sequential lets
                out = ""
                for t, v in zip(tgt.elts, vals):
                    out += f"let {li(t.id)} := {v}\n{ind}"
                return out + block(ctx, rest, ret_wrap, ind)
        else:
            if not isinstance(tgt, ast.Name):
                raise Untranslatable(f"assignment target {seg(ctx, tgt)}")
            ty = ctx.typ(tgt.id)
            if ty is None:
                if isinstance(s.value, ast.ListComp):
                    ty = "List _"
                elif isinstance(s.value, ast.Dict):
                    ty = "Dict"
                else:
                    ty = infer(ctx, s.value)
                if ty:
                    ctx.types[tgt.id] = ty
            val = as_val(ctx, s.value) if ty == "Val" else expr(ctx, s.value, ty)
            names = f"{li(tgt.id)} : {ty}" if ty and ty != "List _" else li(tgt.id)
        return f"let {names} := {val}\n{ind}" + block(ctx, rest, ret_wrap, ind)
    if isinstance(s, ast.AugAssign):
        if type(s.op) not in BINOPS:
            raise Untranslatable("augassign op")
        ty = ctx.typ(s.target.id)
        if isinstance(s.op, ast.Sub) and ty == "Nat":
            raise Untranslatable("subtraction on Nat")
        if isinstance(s.op, ast.Div) and ty != "Rat":
            raise Untranslatable("division on non-Rat")
        op = BINOPS[type(s.op)]
        return (
            f"let {li(s.target.id)} := {li(s.target.id)} {op} {expr(ctx, s.value, ty)}\n{ind}"
            + block(ctx, rest, ret_wrap, ind)
        )
    if isinstance(s, ast.If):
        c = expr(ctx, s.test)
        body_exits, else_exits = always_exits(s.body), always_exits(s.orelse)
        if body_exits and else_exits:
            return (
                f"if {c} then\n{ind}  "
                + block(ctx, s.body, ret_wrap, ind + "  ")
                + f"\n{ind}else\n{ind}  "
                + block(ctx, s.orelse, ret_wrap, ind + "  ")
            )
        if body_exits:
            return (
                f"if {c} then\n{ind}  "
                + block(ctx, s.body, ret_wrap, ind + "  ")
                + f"\n{ind}else\n{ind}  "
                + block(ctx, list(s.orelse) + rest, ret_wrap, ind + "  ")
            )
        if else_exits:
            return (
                f"if {c} then\n{ind}  "
                + block(ctx, list(s.body) + rest, ret_wrap, ind + "  ")
                + f"\n{ind}else\n{ind}  "
                + block(ctx, s.orelse, ret_wrap, ind + "  ")
            )
        if may_exit(s.body) or may_exit(s.orelse):
            return (
                f"if {c} then\n{ind}  "
                + block(ctx, list(s.body) + rest, ret_wrap, ind + "  ")
                + f"\n{ind}else\n{ind}  "
                + block(ctx, list(s.orelse) + rest, ret_wrap, ind + "  ")
            )
        # join on the assigned variables
        vs = assigned(s.body + s.orelse)
        if not vs:
            return block(ctx, rest, ret_wrap, ind)
        def yield_block(st, what):
            marker = ast.Return(value=ast.Name(id="__yield__", ctx=ast.Load()))
            saved = dict(ctx.types)
            try:
                return block(ctx, list(st) + [marker], lambda _: what, ind + "  ") if st else what
            finally:
                newt = dict(ctx.types)
                ctx.types.clear()
                ctx.types.update(saved)
                for k, v in newt.items():
                    ctx.types.setdefault(k, v)

        vs = [li(v) for v in vs]
        if len(vs) == 1:
            tup = vs[0]
            return (
                f"let {tup} := (if {c} then\n{ind}  "
                + yield_block(s.body, tup)
                + f"\n{ind}else\n{ind}  "
                + yield_block(s.orelse, tup)
                + f")\n{ind}"
                + block(ctx, rest, ret_wrap, ind)
            )
        # several joined variables: one scalar `if` per variable (the whole branch is replayed for
        # each, reading the pre-`if` values), then simultaneous rebinding -- keeps the definition in
        # plain if-then-else form, which `grind`/`split` handle well (no tuple projections).
        ctx.join_counter = getattr(ctx, "join_counter", 0) + 1
        k = ctx.join_counter
        out = f"let c_{k} : Bool := {c}\n{ind}"
        for v in vs:
            out += (
                f"let {v}_j{k} := (if c_{k} then\n{ind}  "
                + yield_block(s.body, v)
                + f"\n{ind}else\n{ind}  "
                + yield_block(s.orelse, v)
                + f")\n{ind}"
            )
        for v in vs:
            out += f"let {v} := {v}_j{k}\n{ind}"
        return out + block(ctx, rest, ret_wrap, ind)
    raise Untranslatable(f"stmt {type(s).__name__}: {seg(ctx, s)[:70]}")


def find_func(tree, qual):
    body = tree.body
    node = None
    for p in qual.split("."):
        node = next(
            (n for n in body if isinstance(n, (ast.FunctionDef, ast.ClassDef)) and n.name == p), None
        )
        if node is None:
            raise Untranslatable(f"definition {qual} not found")
        body = node.body
    return node


def translate_function(
    source,
    qual,
    lean_name,
    params,
    ret,
    consts,
    types=None,
    raises=False,
    slice_from=None,
    slice_to=None,
    extra_params=(),
    default_num=None,
    returns_var=None,
):
    """Translate function `qual` (or a statement slice of it) into one Lean definition."""
    tree = ast.parse(source)
    fn = find_func(tree, qual)
    stmts = list(fn.body)

    def first_line(s):
        return (ast.get_source_segment(source, s) or "").split("\n")[0]

    if slice_from is not None:
        idx = next((i for i, s in enumerate(stmts) if slice_from in first_line(s)), None)
        if idx is None:
            raise Untranslatable(f"slice start {slice_from!r} not found in {qual}")
        stmts = stmts[idx:]
    if slice_to is not None:
        idx = next((i for i, s in enumerate(stmts) if slice_to in first_line(s)), None)
        if idx is None:
            raise Untranslatable(f"slice end {slice_to!r} not found in {qual}")
        stmts = stmts[:idx]
    if returns_var is not None:
        stmts = stmts + [ast.Return(value=ast.Name(id=returns_var, ctx=ast.Load()))]
    t = dict(params)
    t.update(types or {})
    t["return"] = ret
    ctx = Ctx(t, consts, raises, source, default_num)
    wrap = (lambda v: f".ok {v}") if raises else (lambda v: v)
    body = block(ctx, stmts, wrap)
    sig = " ".join(f"({li(k)} : {v})" for k, v in list(extra_params) + list(params.items()))
    rty = f"Except String ({ret})" if raises else ret
    return f"def {lean_name} {sig} : {rty} :=\n  {body}\n"


def translate_expression(source, node, lean_name, params, ret, consts, types=None, default_num=None):
    t = dict(params)
    t.update(types or {})
    ctx = Ctx(t, consts, False, source, default_num)
    sig = " ".join(f"({li(k)} : {v})" for k, v in params.items())
    return f"def {lean_name} {sig} : {ret} :=\n  {expr(ctx, node, ret)}\n"


def find_expressions(source, qual, pattern_re):
    """All sub-expressions of function `qual` whose unparsed text matches the regex, in source order."""
    tree = ast.parse(source)
    fn = find_func(tree, qual) if qual else tree
    rx = re.compile(pattern_re)
    hits = []
    for n in ast.walk(fn):
        if isinstance(n, ast.expr):
            txt = ast.unparse(n)
            if rx.fullmatch(txt):
                hits.append(n)
    hits.sort(key=lambda n: (n.lineno, n.col_offset))
    return hits
