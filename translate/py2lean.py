"""py2lean -- translate a whitelisted subset of Python (fractopo) to pure Lean 4 definitions.

Reads source text with `ast` only (never imports the code, so it also works on
code that does not run).  The subset and the translation scheme are described in
DESIGN.md section 3.1.  Everything that cannot be translated raises
`Untranslatable`; the caller records that as the broken obligation
``translate:<item>``.

Conventions of the output:
* pure `let` / `if then else` form, no `do` blocks;
* Python float literals are read as *decimal* rationals (2.01 -> 201/100);
* a function that can `raise` returns `Except String a`;
* `np.nan`-capable floats are `Val` (num q | nan) from FractopoModel.Basic.PyPrelude;
* dict literals are association lists in insertion order.
"""
from __future__ import annotations

import ast
import re
from fractions import Fraction


class Untranslatable(Exception):
    pass


LEAN_KEYWORDS = {"end", "from", "at", "fun", "open", "in", "do", "then", "else", "if", "let", "have", "show", "with",
                 "match", "where", "by", "section", "namespace", "variable", "instance", "structure", "class",
                 "theorem", "def", "example", "axiom", "import", "export", "local", "prefix", "infix", "notation",
                 "mutual", "partial", "unsafe", "private", "protected", "deriving", "extends", "for", "universe", "Type", "Prop", "Sort"}


def li(name: str) -> str:
    """Lean identifier for a Python identifier"""
    return name + "_" if name in LEAN_KEYWORDS else name


def dec_to_rat(src: str) -> str:
    f = Fraction(src.replace("_", ""))  # decimal reading of the literal
    if f.denominator == 1:
        return f"({f.numerator} : Rat)"
    return f"(({f.numerator} : Rat) / {f.denominator})"


NUMERIC = ("Rat", "Nat", "Int")


class Ctx:
    def __init__(self, types, consts, raises, source, default_num=None):
        self.types = dict(types)  # python var / expression text -> lean type
        self.consts = consts  # python name / expression text -> lean expr
        self.raises = raises  # function can raise -> Except String
        self.source = source
        self.default_num = default_num
        self.ctl = None          # inside a loop body: {"continue": fn, "break": fn}
        self.fall = None         # what falling off the end of the current statement list means (loop bodies)
        self.raise_wrap = lambda n: f'.error "{n}"'
        self.propagate = lambda r: r   # how an early return value of an inner loop leaves the current context
        self.fn_wrap = (lambda v: f".ok {v}") if raises else (lambda v: v)
        self.aux = []            # auxiliary (loop) definitions, in emission order
        self.fn_name = "f"
        self.all_params = []     # [(name, type)] of the enclosing function incl. extra params
        self.loop_counter = 0

    def typ(self, name):
        return self.types.get(name)


BINOPS = {ast.Add: "+", ast.Sub: "-", ast.Mult: "*", ast.Div: "/"}
BOOL_BITOPS = {ast.BitOr: "||", ast.BitAnd: "&&"}
REL = {ast.Eq: "=", ast.NotEq: "≠", ast.Lt: "<", ast.LtE: "≤", ast.Gt: ">", ast.GtE: "≥"}


def seg(ctx, node):
    s = ast.get_source_segment(ctx.source, node)
    if s is None:
        s = ast.unparse(node)
    return s


def norm(s: str) -> str:
    s = re.sub(r"\s+", "", s)
    return re.sub(r",([)\]])", r"\1", s)  # trailing commas of multi-line calls / tuples


def _texts(ctx, node):
    """normalised source text and normalised unparsed text (the latter is free of comments and of quote style)"""
    out = {norm(seg(ctx, node))}
    try:
        out.add(norm(ast.unparse(node)))
    except Exception:  # noqa: BLE001
        pass
    return out


def _norm_key(k):
    try:
        return {norm(k), norm(ast.unparse(ast.parse(k, mode="eval").body))}
    except Exception:  # noqa: BLE001
        return {norm(k)}


def lookup_const(ctx, node):
    s = _texts(ctx, node)
    for k, v in ctx.consts.items():
        if _norm_key(k) & s:
            return v
    return None


def lookup_type(ctx, node):
    s = _texts(ctx, node)
    for k, v in ctx.types.items():
        if isinstance(k, str) and (_norm_key(k) & s):
            return v
    return None


def infer(ctx: Ctx, e):
    """Best-effort numeric/bool type of an expression (None = unknown / polymorphic literal)."""
    t = lookup_type(ctx, e)
    if t:
        return t
    if isinstance(e, ast.Constant):
        if isinstance(e.value, bool):
            return "Bool"
        if isinstance(e.value, float):
            return "Rat"
        if isinstance(e.value, str):
            return "String"
        return None
    if isinstance(e, ast.Name):
        return ctx.typ(e.id)
    if isinstance(e, ast.BinOp):
        if isinstance(e.op, ast.Div):
            lt, rt = infer(ctx, e.left), infer(ctx, e.right)
            if "Val" in (lt, rt):
                return "Val"
            return "Rat"
        lt, rt = infer(ctx, e.left), infer(ctx, e.right)
        for cand in ("Val", "Rat", "Int", "Nat"):
            if cand in (lt, rt):
                return cand
        return lt or rt
    if isinstance(e, ast.UnaryOp):
        if isinstance(e.op, ast.Not):
            return "Bool"
        return infer(ctx, e.operand)
    if isinstance(e, ast.IfExp):
        return infer(ctx, e.body) or infer(ctx, e.orelse)
    if isinstance(e, (ast.Compare, ast.BoolOp)):
        return "Bool"
    if isinstance(e, ast.Call):
        fn = seg(ctx, e.func)
        if fn == "len":
            return "Nat"
        if fn in ("float",):
            return "Rat"
        if fn in ("abs", "int") and e.args:
            return infer(ctx, e.args[0])
        if fn in ("min", "max") and e.args:
            for a in e.args:
                t = infer(ctx, a)
                if t:
                    return t
        if fn.endswith((".sum", ".min", ".max", ".mean")):
            return "Rat"
        if fn in ("np.sqrt", "math.sqrt", "sqrt"):
            return "Rat"
        if fn in ("math.ceil", "np.ceil"):
            return "Int"
        if fn == "np.arange":
            return "List Rat"
    return None


def expr(ctx: Ctx, e, want=None) -> str:
    """Translate an expression. Bool-valued expressions are Lean `Bool`."""
    c = lookup_const(ctx, e)
    if c is not None and not isinstance(e, ast.Constant):
        if want == "Val" and lookup_type(ctx, e) in NUMERIC:
            return f"(Val.num {c})"
        return c
    if isinstance(e, ast.Constant):
        v = e.value
        if v is not None and want and want.startswith("Option "):
            return f"(some {expr(ctx, e, want[7:].strip('()'))})"
        if isinstance(v, bool):
            return "true" if v else "false"
        if isinstance(v, int):
            w = want if want in NUMERIC else ctx.default_num
            if want == "Val":
                return f"(Val.num ({v} : Rat))"
            if w is None:
                raise Untranslatable(f"cannot type integer literal {v}")
            if v < 0 and w == "Nat":
                raise Untranslatable("negative Nat literal")
            return f"({v} : {w})"
        if isinstance(v, float):
            r = dec_to_rat(seg(ctx, e))
            if want in ("Nat", "Int"):
                f = Fraction(seg(ctx, e).replace("_", ""))
                if f.denominator != 1:
                    raise Untranslatable(f"float literal {v} in {want} context")
                return f"({f.numerator} : {want})"
            return f"(Val.num {r})" if want == "Val" else r
        if isinstance(v, str):
            return '"' + v.replace("\\", "\\\\").replace('"', '\\"') + '"'
        if v is None:
            return "()" if want == "Unit" else "none"
        raise Untranslatable(f"constant {v!r}")
    if isinstance(e, ast.Name):
        t = ctx.typ(e.id)
        if want == "Val" and t in NUMERIC:
            return f"(Val.num {cast(ctx, li(e.id), t, 'Rat')})"
        if want in NUMERIC and t in NUMERIC and t != want:
            return cast(ctx, li(e.id), t, want)
        return li(e.id)
    if isinstance(e, ast.Attribute):
        raise Untranslatable(f"attribute {seg(ctx, e)}")
    if isinstance(e, ast.BinOp):
        if type(e.op) in BOOL_BITOPS and infer(ctx, e.left) == "Bool":
            return f"({expr(ctx, e.left)} {BOOL_BITOPS[type(e.op)]} {expr(ctx, e.right)})"
        t = want if want in NUMERIC + ("Val",) else infer(ctx, e)
        if t is None:
            t = ctx.default_num
        if isinstance(e.op, ast.Pow) and isinstance(e.right, ast.Constant) and e.right.value == 2:
            a = expr(ctx, e.left, t)
            return f"({a} * {a})"
        if type(e.op) not in BINOPS:
            raise Untranslatable(f"binop {type(e.op).__name__}")
        if isinstance(e.op, ast.Div) and t not in ("Rat", "Val"):
            # Python true division never is integer division
            if want in (None, "Rat"):
                t = "Rat"
            else:
                raise Untranslatable(f"true division in {t} context: {seg(ctx, e)}")
        if isinstance(e.op, ast.Sub) and t == "Nat" and not getattr(ctx, "nat_sub", False):
            raise Untranslatable(f"subtraction on Nat: {seg(ctx, e)}")
        return f"({expr(ctx, e.left, t)} {BINOPS[type(e.op)]} {expr(ctx, e.right, t)})"
    if isinstance(e, ast.UnaryOp):
        if isinstance(e.op, ast.Not):
            return f"(!{expr(ctx, e.operand)})"
        if isinstance(e.op, ast.USub):
            t = want if want in NUMERIC + ("Val",) else infer(ctx, e)
            if t == "Nat":
                raise Untranslatable("negation on Nat")
            return f"(-{expr(ctx, e.operand, t)})"
        raise Untranslatable("unaryop")
    if isinstance(e, ast.BoolOp):
        op = " && " if isinstance(e.op, ast.And) else " || "
        return "(" + op.join(expr(ctx, v) for v in e.values) + ")"
    if isinstance(e, ast.Compare):
        parts = []
        left = e.left
        for op, right in zip(e.ops, e.comparators):
            if isinstance(op, (ast.In, ast.NotIn)):
                r = expr(ctx, right)
                l = expr(ctx, left)
                if isinstance(right, ast.Name) and ctx.typ(right.id) == "Dict":
                    s = f"(dictHas {r} {l})"
                elif isinstance(right, ast.Name) and (ctx.typ(right.id) or "").startswith("AList"):
                    s = f"(alistHas {r} {l})"
                else:
                    s = f"(List.elem {l} {r})"
                parts.append(s if isinstance(op, ast.In) else f"(!{s})")
            elif isinstance(op, (ast.Is, ast.IsNot)) and isinstance(right, ast.Constant) and isinstance(right.value, bool) and infer(ctx, left) == "Bool":
                pos = (right.value is True) == isinstance(op, ast.Is)
                parts.append(expr(ctx, left) if pos else f"(!{expr(ctx, left)})")
            elif isinstance(op, (ast.Is, ast.IsNot)):
                lt = infer(ctx, left) or ""
                if isinstance(right, ast.Constant) and right.value is None and lt.startswith("Option"):
                    s = f"(Option.isNone {expr(ctx, left)})"
                    parts.append(s if isinstance(op, ast.Is) else f"(!{s})")
                elif isinstance(right, ast.Constant) and right.value is None and lt:
                    parts.append("false" if isinstance(op, ast.Is) else "true")
                else:
                    raise Untranslatable("is")
            else:
                nt = infer(ctx, left) or infer(ctx, right) or ctx.default_num
                if nt == "Bool" or nt == "String":
                    rel = "==" if isinstance(op, ast.Eq) else "!=" if isinstance(op, ast.NotEq) else None
                    if rel is None:
                        raise Untranslatable("ordering on Bool/String")
                    parts.append(f"({expr(ctx, left)} {rel} {expr(ctx, right)})")
                elif nt == "Val":
                    parts.append(f"(Val.cmp{type(op).__name__} {expr(ctx, left, 'Val')} {expr(ctx, right, 'Val')})")
                else:
                    if nt is None:
                        raise Untranslatable(f"cannot type comparison {seg(ctx, e)}")
                    parts.append(f"(decide ({expr(ctx, left, nt)} {REL[type(op)]} {expr(ctx, right, nt)}))")
            left = right
        return parts[0] if len(parts) == 1 else "(" + " && ".join(parts) + ")"
    if isinstance(e, ast.IfExp):
        w = want or infer(ctx, e)
        return f"(if {expr(ctx, e.test)} then {expr(ctx, e.body, w)} else {expr(ctx, e.orelse, w)})"
    if isinstance(e, (ast.Tuple, ast.List)):
        if want == "tuple" or (want and top_level_prod(want)):
            return "(" + ", ".join(expr(ctx, x) for x in e.elts) + ")"
        inner = None
        if want and want.startswith("List "):
            inner = want[5:].strip("()")
        return "[" + ", ".join(expr(ctx, x, inner) for x in e.elts) + "]"
    if isinstance(e, ast.Subscript):
        base = expr(ctx, e.value)
        bt = infer(ctx, e.value) or ""
        if isinstance(e.slice, ast.Constant) and isinstance(e.slice.value, int):
            if bt.startswith("List"):
                k = e.slice.value
                if k < 0:
                    raise Untranslatable("negative list index")
                return f"(List.getD {base} {k} default)"
            if "×" in bt:
                n = len(bt.split("×"))
                k = e.slice.value
                if k < 0:
                    k += n
                # right-nested pairs
                proj = ".2" * k + (".1" if k < n - 1 else "")
                return f"{base}{proj}"
        raise Untranslatable(f"subscript {seg(ctx, e)}")
    if isinstance(e, ast.Call):
        return call(ctx, e, want)
    if isinstance(e, ast.Dict):
        items = []
        for k, v in zip(e.keys, e.values):
            if k is None:  # {**a, **b}
                items.append(("spread", expr(ctx, v)))
            else:
                items.append(("kv", f"({expr(ctx, k)}, {as_val(ctx, v)})"))
        out, cur = [], []
        for kind, t in items:
            if kind == "kv":
                cur.append(t)
            else:
                if cur:
                    out.append("[" + ", ".join(cur) + "]")
                    cur = []
                out.append(t)
        if cur:
            out.append("[" + ", ".join(cur) + "]")
        return "(" + " ++ ".join(out) + ")" if out else "[]"
    if isinstance(e, ast.DictComp):
        g = e.generators[0]
        out = expr(ctx, g.iter)
        pat = pattern(g.target)
        for cond in g.ifs:
            out = f"(List.filter (fun {pat} => {expr(ctx, cond)}) {out})"
        return f"(List.map (fun {pat} => ({expr(ctx, e.key)}, {as_val(ctx, e.value)})) {out})"
    if isinstance(e, (ast.ListComp, ast.GeneratorExp)):
        if len(e.generators) != 1:
            raise Untranslatable("multi-generator comprehension")
        g = e.generators[0]
        if isinstance(g.iter, ast.Call) and norm(seg(ctx, g.iter.func)) == "enumerate" and len(g.iter.args) == 1 \
                and isinstance(g.target, ast.Tuple) and len(g.target.elts) == 2 and all(isinstance(x, ast.Name) for x in g.target.elts):
            # enumerate(xs) with target (i, x): zipIdx yields (x, i)
            out = f"(List.zipIdx {expr(ctx, g.iter.args[0])})"
            pat = f"({li(g.target.elts[1].id)}, {li(g.target.elts[0].id)})"
        else:
            out = expr(ctx, g.iter)
            pat = pattern(g.target)
        for cond in g.ifs:
            out = f"(List.filter (fun {pat} => {expr(ctx, cond)}) {out})"
        inner = want[5:].strip("()") if want and want.startswith("List ") else None
        return f"(List.map (fun {pat} => {expr(ctx, e.elt, inner)}) {out})"
    raise Untranslatable(f"expr {type(e).__name__}: {seg(ctx, e)}")


def top_level_prod(ty: str) -> bool:
    """does the type have a `×` outside parentheses (i.e. is it a product, not e.g. a list of products)"""
    depth = 0
    for ch in ty:
        if ch == "(":
            depth += 1
        elif ch == ")":
            depth -= 1
        elif ch == "×" and depth == 0:
            return True
    return False


def cast(ctx, s, frm, to):
    if frm == to:
        return s
    if to == "Rat" and frm in ("Nat", "Int"):
        return f"(({s} : {frm}) : Rat)"
    if to == "Int" and frm == "Nat":
        return f"(({s} : Nat) : Int)"
    if to == "Nat" and frm == "Int":
        return f"(Int.toNat {s})"  # only used for range(n): Python's range of a negative count is empty, like toNat
    raise Untranslatable(f"cast {frm} -> {to}")


def is_val_expr(ctx, e):
    if norm(seg(ctx, e)) in ("np.nan",):
        return True
    return infer(ctx, e) == "Val" or any(
        isinstance(n, ast.Name) and ctx.typ(n.id) == "Val" for n in ast.walk(e)
    )


def as_val(ctx, e):
    if norm(seg(ctx, e)) == "np.nan":
        return "Val.nan"
    if is_val_expr(ctx, e):
        return expr(ctx, e, "Val")
    return f"Val.num {expr(ctx, e, 'Rat')}"


def pattern(t):
    if isinstance(t, ast.Name):
        return li(t.id)
    if isinstance(t, ast.Tuple):
        return "(" + ", ".join(pattern(x) for x in t.elts) + ")"
    raise Untranslatable("pattern")


def call(ctx, e, want):
    fn = norm(seg(ctx, e.func))
    args = e.args
    if e.keywords and fn not in ctx.consts:
        raise Untranslatable(f"keyword arguments in call {fn}")
    if fn == "zip" and len(args) == 2:
        return f"(List.zip {expr(ctx, args[0])} {expr(ctx, args[1])})"
    if fn == "range" and len(args) == 1:
        return f"(List.range {expr(ctx, args[0], 'Nat')})"
    if fn == "len" and len(args) == 1:
        w = want if want in NUMERIC else (ctx.default_num or "Nat")
        inner = f"(({expr(ctx, args[0])}).length : Nat)"
        return inner if w == "Nat" else f"({inner} : {w})"
    if fn == "sum" and len(args) == 1 and (infer(ctx, args[0]) or lookup_type(ctx, args[0])) == "List Bool":
        inner = f"(List.countP id {expr(ctx, args[0])})"
        w = want if want in NUMERIC else "Nat"
        return inner if w == "Nat" else f"(({inner} : Nat) : {w})"
    if fn == "sum" and len(args) == 1:
        a0 = args[0]
        if isinstance(a0, (ast.GeneratorExp, ast.ListComp)) and len(a0.generators) == 1 and infer(ctx, a0.elt) == "Bool":
            # sum of booleans = number of elements satisfying the predicate
            g = a0.generators[0]
            out = expr(ctx, g.iter)
            pat = pattern(g.target)
            for cond in g.ifs:
                out = f"(List.filter (fun {pat} => {expr(ctx, cond)}) {out})"
            inner = f"(List.countP (fun {pat} => {expr(ctx, a0.elt)}) {out})"
            w = want if want in NUMERIC else "Nat"
            return inner if w == "Nat" else f"(({inner} : Nat) : {w})"
        return f"(List.sum {expr(ctx, args[0], 'List ' + (want or 'Rat'))})"
    if fn == "any" and len(args) == 1:
        return f"(List.any {expr(ctx, args[0])} id)"
    if fn == "all" and len(args) == 1:
        return f"(List.all {expr(ctx, args[0])} id)"
    if fn == "abs" and len(args) == 1:
        t = want if want in NUMERIC else infer(ctx, args[0])
        a = expr(ctx, args[0], t)
        if t == "Nat":
            return a
        return f"(if decide ({a} < 0) then -{a} else {a})"
    if fn in ("min", "max") and len(args) == 2:
        t = want if want in NUMERIC else (infer(ctx, args[0]) or infer(ctx, args[1]))
        return f"({fn} {expr(ctx, args[0], t)} {expr(ctx, args[1], t)})"
    if fn in ("numpy_to_python_type", "general.numpy_to_python_type") and len(args) == 1:
        return expr(ctx, args[0], want)  # identity on values
    if fn in ("np.array", "list", "tuple") and len(args) == 1 and not e.keywords and (infer(ctx, args[0]) or "").startswith("List") or \
            fn == "np.array" and len(args) == 1 and isinstance(args[0], ast.ListComp):
        return expr(ctx, args[0], want)  # array / list of a list: identity on the model's lists
    if fn in ("float", "int", "str") and len(args) == 1:
        if fn == "int" and infer(ctx, args[0]) == "Rat":
            raise Untranslatable("int() of a Rat")
        return expr(ctx, args[0], want)
    if fn.endswith(".sum") and not args:
        return f"(List.sum {expr(ctx, e.func.value)})"
    if fn.endswith(".min") and not args:
        return f"(listMin {expr(ctx, e.func.value)})"
    if fn.endswith(".max") and not args:
        return f"(listMax {expr(ctx, e.func.value)})"
    if fn.endswith(".mean") and not args:
        return f"(listMean {expr(ctx, e.func.value)})"
    if fn == "np.isnan":
        return f"(Val.isNan {expr(ctx, args[0], 'Val')})"
    if fn in ("np.sqrt", "math.sqrt", "sqrt"):
        return f"(sqrt {expr(ctx, args[0], 'Rat')})"
    if fn in ("math.ceil", "np.ceil") and len(args) == 1:
        inner = f"(Rat.ceil {expr(ctx, args[0], 'Rat')})"
        return inner if want in (None, "Int") else cast(ctx, inner, "Int", want)
    if fn == "np.arange" and len(args) == 3:
        return f"(pyArange {expr(ctx, args[0], 'Rat')} {expr(ctx, args[1], 'Rat')} {expr(ctx, args[2], 'Rat')})"
    if fn in ctx.consts:
        sig = ctx.types.get(fn + "()")  # optional list of argument types
        out = []
        for i, a in enumerate(args):
            out.append(expr(ctx, a, sig[i] if sig else None))
        return f"({ctx.consts[fn]} " + " ".join(out) + ")"
    raise Untranslatable(f"call {fn}")


MUTATORS = ("append", "remove", "add", "extend", "pop", "insert")


def setdefault_append(st):
    """`d.setdefault(k, []).append(v)` -> (d, k, v) else None"""
    if isinstance(st, ast.Expr) and isinstance(st.value, ast.Call) and isinstance(st.value.func, ast.Attribute) and st.value.func.attr == "append" \
            and isinstance(st.value.func.value, ast.Call) and isinstance(st.value.func.value.func, ast.Attribute) and st.value.func.value.func.attr == "setdefault" \
            and isinstance(st.value.func.value.func.value, ast.Name) and len(st.value.func.value.args) == 2 and ast.unparse(st.value.func.value.args[1]) == "[]" \
            and len(st.value.args) == 1:
        return st.value.func.value.func.value.id, st.value.func.value.args[0], st.value.args[0]
    return None


def mutated_name(st):
    """name mutated by an expression statement `x.append(..)` / `x[k] = v`, else None"""
    sd = setdefault_append(st)
    if sd:
        return sd[0]
    if isinstance(st, ast.Expr) and isinstance(st.value, ast.Call) and isinstance(st.value.func, ast.Attribute) \
            and st.value.func.attr in MUTATORS and isinstance(st.value.func.value, ast.Name):
        return st.value.func.value.id
    if isinstance(st, ast.Assign) and len(st.targets) == 1 and isinstance(st.targets[0], ast.Subscript) and isinstance(st.targets[0].value, ast.Name):
        return st.targets[0].value.id
    return None


def assigned(stmts):
    out = []
    for s in stmts:
        for n in ast.walk(s):
            if isinstance(n, ast.Name) and isinstance(n.ctx, ast.Store) and n.id not in out:
                out.append(n.id)
            if isinstance(n, ast.stmt):
                m = mutated_name(n)
                if m and m not in out:
                    out.append(m)
    return out


def always_exits(stmts):
    if not stmts:
        return False
    last = stmts[-1]
    if isinstance(last, (ast.Return, ast.Raise, ast.Continue, ast.Break)):
        return True
    if isinstance(last, ast.If):
        return always_exits(last.body) and always_exits(last.orelse)
    return False


def walk_no_loops(node):
    """like ast.walk but does not descend into nested loops (their continue/break are their own)"""
    yield node
    for ch in ast.iter_child_nodes(node):
        if isinstance(ch, (ast.For, ast.While)):
            continue
        yield from walk_no_loops(ch)


def may_exit(stmts):
    if any(isinstance(n, (ast.Return, ast.Raise)) for st in stmts for n in ast.walk(st)):
        return True
    return any(isinstance(n, (ast.Continue, ast.Break)) for st in stmts if not isinstance(st, (ast.For, ast.While)) for n in walk_no_loops(st))


def is_log(s):
    return (
        isinstance(s, ast.Expr)
        and isinstance(s.value, ast.Call)
        and re.match(r"(log|logging)\.", ast.unparse(s.value.func) or "") is not None
    )


def block(ctx: Ctx, stmts, ret_wrap, ind="  ") -> str:
    """Translate a statement list in tail position."""
    if not stmts:
        if ctx.fall is not None:
            return ctx.fall()
        raise Untranslatable("fell off the end of function")
    s, rest = stmts[0], stmts[1:]
    if isinstance(s, ast.Continue):
        if ctx.ctl is None:
            raise Untranslatable("continue outside a loop")
        return ctx.ctl["continue"]()
    if isinstance(s, ast.Break):
        if ctx.ctl is None:
            raise Untranslatable("break outside a loop")
        return ctx.ctl["break"]()
    if isinstance(s, ast.For):
        return for_loop(ctx, s, rest, ret_wrap, ind)
    if isinstance(s, ast.While):
        return while_loop(ctx, s, rest, ret_wrap, ind)
    if isinstance(s, ast.Expr) and isinstance(s.value, ast.Call):
        rz = getattr(ctx, "raisers", {}).get(norm(ast.unparse(s.value)))
        if rz is not None:
            # a call statement whose only effect on the model is that it raises when a condition holds
            cond, exc = rz
            return f"if {cond} then {ctx.raise_wrap(exc)} else\n{ind}" + block(ctx, rest, ret_wrap, ind)
    if isinstance(s, ast.Try):
        # `try: X = <call> except <E>: [log] X = <fallback>`: the call is an Option-valued oracle (`none` = it raised).
        # With fallback `None` the variable itself is the Option (covers "returned None" and "raised NotImplementedError").
        hb = [st for st in (s.handlers[0].body if len(s.handlers) == 1 else []) if not is_log(st)]
        ok = (len(s.handlers) == 1 and not s.orelse and not s.finalbody and ast.unparse(s.handlers[0].type) in ("NotImplementedError", "Exception", "TypeError", "ValueError")
              and len(s.body) == 1 and isinstance(s.body[0], ast.Assign) and len(hb) == 1 and isinstance(hb[0], ast.Assign)
              and ast.unparse(hb[0].targets[0]) == ast.unparse(s.body[0].targets[0]) and isinstance(s.body[0].targets[0], ast.Name))
        ok2 = (len(s.handlers) == 1 and not s.orelse and not s.finalbody and ast.unparse(s.handlers[0].type) in ("NotImplementedError", "Exception", "TypeError", "ValueError", "(ValueError, TypeError)")
               and len(s.body) == 1 and isinstance(s.body[0], ast.Assign) and isinstance(s.body[0].targets[0], ast.Name) and hb and isinstance(hb[-1], ast.Return))
        if not ok and ok2:
            # `try: X = <call> except <E>: ...; return v`: the call is an Option-valued oracle (`none` = it raised); the handler leaves the function
            tgt = s.body[0].targets[0].id
            call_ty = infer(ctx, s.body[0].value) or ""
            if not call_ty.startswith("Option "):
                raise Untranslatable(f"try/except-return: call of type {call_ty!r}")
            inner = call_ty[len("Option "):].strip()
            if inner.startswith("(") and inner.endswith(")"):
                inner = inner[1:-1]
            saved_defined = set(getattr(ctx, "defined", set()))
            handler_txt = block(ctx, hb, ret_wrap, ind + "  ")
            if hasattr(ctx, "defined"):
                ctx.defined = saved_defined | {tgt}
            ctx.types[tgt] = inner
            return (f"match {expr(ctx, s.body[0].value)} with\n{ind}| none =>\n{ind}  {handler_txt}\n{ind}| some {li(tgt)} =>\n{ind}  "
                    + block(ctx, rest, ret_wrap, ind + "  "))
        if not ok:
            raise Untranslatable("try/except of an unsupported shape")
        if ast.unparse(hb[0].value) == "None":
            return block(ctx, list(s.body) + rest, ret_wrap, ind)
        tgt = s.body[0].targets[0].id
        ty = ctx.typ(tgt)
        call_ty = infer(ctx, s.body[0].value) or ""
        if not ty or call_ty != f"Option {ty}" and call_ty != f"Option ({ty})":
            raise Untranslatable(f"try/except: {tgt} : {ty} from a call of type {call_ty}")
        if hasattr(ctx, "defined"):
            ctx.defined.add(tgt)
        return (f"let {li(tgt)} : {ty} := (match {expr(ctx, s.body[0].value)} with | some v_ => v_ | none => {expr(ctx, hb[0].value, ty)})\n{ind}"
                + block(ctx, rest, ret_wrap, ind))
    m = mutated_name(s)
    if m is not None:
        if m not in (set(getattr(ctx, "defined", set())) | {p for p, _ in ctx.all_params}):
            raise Untranslatable(f"mutation of {m} before its definition")
        guard = ""
        if getattr(ctx, "strict_remove", False) and isinstance(s, ast.Expr) and isinstance(s.value, ast.Call) and s.value.func.attr == "remove":
            # list.remove(x) raises ValueError when x is absent
            guard = f'if !(List.elem {expr(ctx, s.value.args[0])} {li(m)}) then {ctx.raise_wrap("ValueError")} else\n{ind}'
        return guard + mutation(ctx, s, m) + f"\n{ind}" + block(ctx, rest, ret_wrap, ind)
    if is_log(s) or (isinstance(s, ast.Expr) and isinstance(s.value, ast.Constant)) or isinstance(s, ast.Pass):
        return block(ctx, rest, ret_wrap, ind)
    if isinstance(s, ast.Assert):
        txt = seg(ctx, s)
        if not ctx.raises or "isinstance" in txt or "all(" in txt or "len(" in txt:
            return block(ctx, rest, ret_wrap, ind)
        return f'if !({expr(ctx, s.test)}) then {ctx.raise_wrap("AssertionError")} else\n{ind}' + block(
            ctx, rest, ret_wrap, ind
        )
    if isinstance(s, ast.Return):
        if isinstance(s.value, ast.Name) and s.value.id == "__yield__":
            return ret_wrap(None)
        return ret_wrap(expr(ctx, s.value, ctx.types.get("return")))
    if isinstance(s, ast.Raise):
        if not ctx.raises:
            raise Untranslatable("raise in a function declared non-raising")
        name = s.exc.func.id if isinstance(s.exc, ast.Call) else ast.unparse(s.exc)
        return ctx.raise_wrap(name)
    if isinstance(s, ast.AnnAssign) and s.value is None:
        return block(ctx, rest, ret_wrap, ind)  # bare annotation
    if isinstance(s, (ast.Assign, ast.AnnAssign)):
        if isinstance(s, ast.Assign) and len(s.targets) != 1:
            raise Untranslatable("chained assignment")
        tgt = s.targets[0] if isinstance(s, ast.Assign) else s.target
        if lookup_const(ctx, s.value) is not None and (lookup_type(ctx, s.value) or "").startswith("Except "):
            # the callee can raise: `x = f(..)` becomes a match on its Except result, the exception propagates
            if not ctx.raises:
                raise Untranslatable("call of a raising function in a function declared non-raising")
            inner = (lookup_type(ctx, s.value) or "")[len("Except "):].strip()
            if inner.startswith("(") and inner.endswith(")"):
                inner = inner[1:-1]
            if isinstance(tgt, ast.Name):
                ctx.types[tgt.id] = inner
                if hasattr(ctx, "defined"):
                    ctx.defined.add(tgt.id)
                pat = li(tgt.id)
            elif isinstance(tgt, ast.Tuple) and all(isinstance(t_, ast.Name) for t_ in tgt.elts):
                parts = split_prod(inner, len(tgt.elts))
                if parts is None:
                    raise Untranslatable(f"tuple assignment from a raising call of type {inner!r}")
                for t_, p_ in zip(tgt.elts, parts):
                    ctx.types[t_.id] = p_[1:-1] if p_.startswith("(") and p_.endswith(")") else p_
                    if hasattr(ctx, "defined"):
                        ctx.defined.add(t_.id)
                pat = "(" + ", ".join(li(t_.id) for t_ in tgt.elts) + ")"
            else:
                raise Untranslatable("target of a raising call")
            reraise = ctx.raise_wrap("@@").replace('"@@"', "e_")
            return (f"match {lookup_const(ctx, s.value)} with\n{ind}| .error e_ => {reraise}\n{ind}| .ok {pat} =>\n{ind}  "
                    + block(ctx, rest, ret_wrap, ind + "  "))
        if isinstance(tgt, ast.Tuple) and not isinstance(s.value, ast.Tuple) and lookup_const(ctx, s.value) is not None \
                and all(isinstance(t_, ast.Name) for t_ in tgt.elts):
            vt = lookup_type(ctx, s.value) or ""
            parts = split_prod(vt, len(tgt.elts))
            if parts is None:
                raise Untranslatable(f"tuple assignment from a call of type {vt!r}")
            for t_, p_ in zip(tgt.elts, parts):
                ctx.types[t_.id] = p_[1:-1] if p_.startswith("(") and p_.endswith(")") else p_
                if hasattr(ctx, "defined"):
                    ctx.defined.add(t_.id)
            names = "(" + ", ".join(li(t_.id) for t_ in tgt.elts) + ")"
            return f"let {names} := {lookup_const(ctx, s.value)}\n{ind}" + block(ctx, rest, ret_wrap, ind)
        if isinstance(tgt, ast.Tuple):
            if not isinstance(s.value, ast.Tuple) or len(s.value.elts) != len(tgt.elts):
                raise Untranslatable("tuple assignment from non-tuple")
            names = "(" + ", ".join(li(t.id) for t in tgt.elts) + ")"
            vals = []
            for t, x in zip(tgt.elts, s.value.elts):
                ty = ctx.typ(t.id) or infer(ctx, x)
                if ty:
                    ctx.types[t.id] = ty
                vals.append(as_val(ctx, x) if ty == "Val" else expr(ctx, x, ty))
            val = "(" + ", ".join(vals) + ")"
            tnames = {t.id for t in tgt.elts}
            rhs_names = {n.id for x in s.value.elts for n in ast.walk(x) if isinstance(n, ast.Name)}
            if not (tnames & rhs_names):
                # independent right-hand sides: plain sequential lets
                out = ""
                for t, v in zip(tgt.elts, vals):
                    out += f"let {li(t.id)} := {v}\n{ind}"
                return out + block(ctx, rest, ret_wrap, ind)
        else:
            if not isinstance(tgt, ast.Name):
                raise Untranslatable(f"assignment target {seg(ctx, tgt)}")
            if hasattr(ctx, "defined"):
                ctx.defined.add(tgt.id)
            ty = ctx.typ(tgt.id)
            if ty is None:
                if isinstance(s.value, ast.ListComp):
                    ty = "List _"
                elif isinstance(s.value, ast.Dict):
                    ty = "Dict"
                else:
                    ty = infer(ctx, s.value)
                if ty:
                    ctx.types[tgt.id] = ty
            vt = infer(ctx, s.value) if isinstance(s.value, ast.Name) else None
            if vt and ty and vt in (f"Option {ty}", f"Option ({ty})"):
                # `x = opt` under an `opt is not None` guard
                val = f"({li(s.value.id)}.getD {li(tgt.id)})"
            else:
                val = as_val(ctx, s.value) if ty == "Val" else expr(ctx, s.value, ty)
            names = f"{li(tgt.id)} : {ty}" if ty and ty != "List _" else li(tgt.id)
        return f"let {names} := {val}\n{ind}" + block(ctx, rest, ret_wrap, ind)
    if isinstance(s, ast.AugAssign):
        if type(s.op) not in BINOPS:
            raise Untranslatable("augassign op")
        ty = ctx.typ(s.target.id)
        if isinstance(s.op, ast.Sub) and ty == "Nat":
            raise Untranslatable("subtraction on Nat")
        if isinstance(s.op, ast.Div) and ty != "Rat":
            raise Untranslatable("division on non-Rat")
        op = BINOPS[type(s.op)]
        return (
            f"let {li(s.target.id)} := {li(s.target.id)} {op} {expr(ctx, s.value, ty)}\n{ind}"
            + block(ctx, rest, ret_wrap, ind)
        )
    if isinstance(s, ast.If):
        if isinstance(s.test, ast.Name) and ctx.typ(s.test.id) == "Option Bool":
            c = f"({li(s.test.id)} == some true)"  # truthiness of an Optional[bool]
        else:
            c = expr(ctx, s.test)
        body_exits, else_exits = always_exits(s.body), always_exits(s.orelse)
        if body_exits and else_exits:
            return (
                f"if {c} then\n{ind}  "
                + block(ctx, s.body, ret_wrap, ind + "  ")
                + f"\n{ind}else\n{ind}  "
                + block(ctx, s.orelse, ret_wrap, ind + "  ")
            )
        if body_exits:
            return (
                f"if {c} then\n{ind}  "
                + block(ctx, s.body, ret_wrap, ind + "  ")
                + f"\n{ind}else\n{ind}  "
                + block(ctx, list(s.orelse) + rest, ret_wrap, ind + "  ")
            )
        if else_exits:
            return (
                f"if {c} then\n{ind}  "
                + block(ctx, list(s.body) + rest, ret_wrap, ind + "  ")
                + f"\n{ind}else\n{ind}  "
                + block(ctx, s.orelse, ret_wrap, ind + "  ")
            )
        if may_exit(s.body) or may_exit(s.orelse):
            return (
                f"if {c} then\n{ind}  "
                + block(ctx, list(s.body) + rest, ret_wrap, ind + "  ")
                + f"\n{ind}else\n{ind}  "
                + block(ctx, list(s.orelse) + rest, ret_wrap, ind + "  ")
            )
        # join on the assigned variables (targets of nested loops are local to those loops)
        loop_targets = {n.id for st in s.body + s.orelse for f in ast.walk(st) if isinstance(f, ast.For) for n in ast.walk(f.target) if isinstance(n, ast.Name)}
        plain = {n.id for st in s.body + s.orelse for a in ast.walk(st) if isinstance(a, (ast.Assign, ast.AnnAssign, ast.AugAssign))
                 for t_ in (a.targets if isinstance(a, ast.Assign) else [a.target]) for n in ast.walk(t_) if isinstance(n, ast.Name)}
        comp_targets = {n.id for st in s.body + s.orelse for c_ in ast.walk(st) if isinstance(c_, ast.comprehension) for n in ast.walk(c_.target) if isinstance(n, ast.Name)}

        def plain_in(stmts_):
            return {n.id for st in stmts_ for a in ast.walk(st) if isinstance(a, (ast.Assign, ast.AnnAssign, ast.AugAssign))
                    for t_ in (a.targets if isinstance(a, ast.Assign) else [a.target]) for n in ast.walk(t_) if isinstance(n, ast.Name)} | \
                   {m_ for st in stmts_ for a in ast.walk(st) if isinstance(a, ast.stmt) for m_ in [mutated_name(a)] if m_}

        known_ = set(getattr(ctx, "defined", set())) | {p_ for p_, _ in getattr(ctx, "all_params", [])}
        both = plain_in(s.body) & plain_in(s.orelse)
        vs = [v for v in assigned(s.body + s.orelse)
              if (v not in loop_targets or v in plain) and (v not in comp_targets or v in plain) and (v in known_ or v in both)]
        if not vs:
            return block(ctx, rest, ret_wrap, ind)
        def yield_block(st, what):
            marker = ast.Return(value=ast.Name(id="__yield__", ctx=ast.Load()))
            saved = dict(ctx.types)
            try:
                return block(ctx, list(st) + [marker], lambda _: what, ind + "  ") if st else what
            finally:
                newt = dict(ctx.types)
                ctx.types.clear()
                ctx.types.update(saved)
                for k, v in newt.items():
                    ctx.types.setdefault(k, v)

        vs = [li(v) for v in vs]
        if len(vs) == 1:
            tup = vs[0]
            return (
                f"let {tup} := (if {c} then\n{ind}  "
                + yield_block(s.body, tup)
                + f"\n{ind}else\n{ind}  "
                + yield_block(s.orelse, tup)
                + f")\n{ind}"
                + block(ctx, rest, ret_wrap, ind)
            )
        if getattr(ctx, "join", "scalar") == "tuple":
            # one tuple-valued `if` (no replay of the branches: linear size also for nested joins)
            tup = "(" + ", ".join(vs) + ")"
            return (
                f"let {tup} := (if {c} then\n{ind}  "
                + yield_block(s.body, tup)
                + f"\n{ind}else\n{ind}  "
                + yield_block(s.orelse, tup)
                + f")\n{ind}"
                + block(ctx, rest, ret_wrap, ind)
            )
        # several joined variables: one scalar `if` per variable (the whole branch is replayed for
        # each, reading the pre-`if` values), then simultaneous rebinding -- keeps the definition in
        # plain if-then-else form, which `grind`/`split` handle well (no tuple projections).
        ctx.join_counter = getattr(ctx, "join_counter", 0) + 1
        k = ctx.join_counter
        out = f"let c_{k} : Bool := {c}\n{ind}"
        for v in vs:
            out += (
                f"let {v}_j{k} := (if c_{k} then\n{ind}  "
                + yield_block(s.body, v)
                + f"\n{ind}else\n{ind}  "
                + yield_block(s.orelse, v)
                + f")\n{ind}"
            )
        for v in vs:
            out += f"let {v} := {v}_j{k}\n{ind}"
        return out + block(ctx, rest, ret_wrap, ind)
    raise Untranslatable(f"stmt {type(s).__name__}: {seg(ctx, s)[:70]}")


def mutation(ctx, st, name):
    """`x.append(e)` / `x.remove(e)` / `x.add(e)` / `x.extend(e)` / `x[k] = v` as a rebinding of x"""
    ty = ctx.typ(name)
    if ty is None:
        raise Untranslatable(f"mutation of untyped variable {name}")
    n = li(name)
    sd = setdefault_append(st)
    if sd:
        if not ty.startswith("AList"):
            raise Untranslatable(f"setdefault on non-dict {name}")
        kt, vt = alist_types(ty)
        return f"let {n} := alistAppendTo {expr(ctx, sd[1], kt)} {expr(ctx, sd[2], elem_type(vt))} {n}"
    if isinstance(st, ast.Assign) and ty.startswith("List "):
        tgt = st.targets[0]
        return f"let {n} := List.set {n} {expr(ctx, tgt.slice, 'Nat')} {expr(ctx, st.value, elem_type(ty))}"
    if isinstance(st, ast.Assign):
        tgt = st.targets[0]
        if not ty.startswith("AList"):
            raise Untranslatable(f"subscript assignment to non-dict {name}")
        kt, vt = alist_types(ty)
        return f"let {n} := alistSet {n} {expr(ctx, tgt.slice, kt)} {expr(ctx, st.value, vt)}"
    call = st.value
    attr = call.func.attr
    inner = ty[5:].strip() if ty.startswith("List ") else None
    if inner and inner.startswith("(") and inner.endswith(")"):
        inner = inner[1:-1]
    if attr == "insert" and len(call.args) == 2 and inner:
        # list.insert(i, v) for 0 <= i <= len (Python clamps a larger i to the end, as pyInsertIdx does)
        return f"let {n} := pyInsertIdx {n} {expr(ctx, call.args[0], 'Nat')} {expr(ctx, call.args[1], inner)}"
    if len(call.args) != 1:
        raise Untranslatable(f"{attr} with {len(call.args)} arguments")
    if attr == "pop" and inner:
        # statement form only (the popped value is discarded); an index out of range would raise in Python
        return f"let {n} := List.eraseIdx {n} {expr(ctx, call.args[0], 'Nat')}"
    if attr == "append":
        return f"let {n} := {n} ++ [{expr(ctx, call.args[0], inner)}]"
    if attr == "extend":
        return f"let {n} := {n} ++ {expr(ctx, call.args[0], ty)}"
    if attr == "remove":
        return f"let {n} := List.erase {n} {expr(ctx, call.args[0], inner)}"
    if attr == "add":
        return f"let {n} := pySetAdd {n} {expr(ctx, call.args[0], inner)}"
    raise Untranslatable(f"mutator {attr}")


def alist_types(ty):
    """'AList K V' -> (K, V); K and V are single tokens or parenthesised"""
    rest = ty[len("AList"):].strip()
    parts, depth, cur = [], 0, ""
    for ch in rest:
        if ch == "(":
            depth += 1
        if ch == ")":
            depth -= 1
        if ch == " " and depth == 0:
            if cur:
                parts.append(cur)
            cur = ""
        else:
            cur += ch
    if cur:
        parts.append(cur)
    if len(parts) != 2:
        raise Untranslatable(f"dict type {ty}")
    return tuple(x[1:-1] if x.startswith("(") and x.endswith(")") else x for x in parts)


def elem_type(list_ty):
    if not list_ty or not list_ty.startswith("List "):
        return None
    inner = list_ty[5:].strip()
    if inner.startswith("(") and inner.endswith(")"):
        inner = inner[1:-1]
    return inner


def split_prod(ty, n):
    """split a right-nested product type 'A × B × C' into n components"""
    parts, depth, cur = [], 0, ""
    for tok in ty.split(" "):
        depth += tok.count("(") - tok.count(")")
        if tok == "×" and depth == 0 and len(parts) < n - 1:
            parts.append(cur.strip())
            cur = ""
        else:
            cur += " " + tok
    parts.append(cur.strip())
    return parts if len(parts) == n else None


def loop_iter(ctx, node):
    """-> (lean list expression, lean pattern, {python name: type})"""
    tgt, it = node.target, node.iter
    if isinstance(it, ast.Call) and norm(seg(ctx, it.func)) == "enumerate" and len(it.args) == 1:
        if not (isinstance(tgt, ast.Tuple) and len(tgt.elts) == 2 and all(isinstance(e, ast.Name) for e in tgt.elts)):
            raise Untranslatable("enumerate target")
        et = elem_type(infer(ctx, it.args[0]) or lookup_type(ctx, it.args[0]))
        if et is None:
            raise Untranslatable(f"element type of {seg(ctx, it.args[0])}")
        return f"(List.zipIdx {expr(ctx, it.args[0])})", f"({li(tgt.elts[1].id)}, {li(tgt.elts[0].id)})", {tgt.elts[0].id: "Nat", tgt.elts[1].id: et}, f"({et}) × Nat"
    if isinstance(it, ast.Call) and norm(seg(ctx, it.func)) == "range" and len(it.args) == 1:
        if not isinstance(tgt, ast.Name):
            raise Untranslatable("range target")
        return f"(List.range {expr(ctx, it.args[0], 'Nat')})", li(tgt.id), {tgt.id: "Nat"}, "Nat"
    lt = lookup_type(ctx, it) or infer(ctx, it)
    if isinstance(it, ast.Call) and norm(seg(ctx, it.func)) == "zip" and len(it.args) == 2:
        a = elem_type(lookup_type(ctx, it.args[0]) or infer(ctx, it.args[0]))
        b = elem_type(lookup_type(ctx, it.args[1]) or infer(ctx, it.args[1]))
        if a is None or b is None:
            raise Untranslatable("element types of zip")
        lt = f"List (({a}) × ({b}))"
    et = elem_type(lt)
    if et is None:
        raise Untranslatable(f"cannot type loop iterable {seg(ctx, it)}")
    if isinstance(tgt, ast.Name):
        return expr(ctx, it), li(tgt.id), {tgt.id: et}, et
    if isinstance(tgt, ast.Tuple) and all(isinstance(e, ast.Name) for e in tgt.elts):
        parts = split_prod(et, len(tgt.elts))
        if parts is None:
            raise Untranslatable(f"cannot destructure {et}")
        return expr(ctx, it), pattern(tgt), {e.id: (p[1:-1] if p.startswith("(") and p.endswith(")") else p) for e, p in zip(tgt.elts, parts)}, et
    raise Untranslatable("loop target")


def for_loop(ctx, node, rest, ret_wrap, ind):
    if node.orelse:
        raise Untranslatable("for ... else")
    it_expr, pat, tgt_types, et = loop_iter(ctx, node)
    body = list(node.body)
    known = set(getattr(ctx, "defined", set())) | {p for p, _ in ctx.all_params}
    state = [v for v in assigned(body) if v not in tgt_types and v in known]
    for v in state:
        if ctx.typ(v) in (None, "List _"):
            raise Untranslatable(f"loop state variable {v} has no concrete type")
    has_exit = any(isinstance(n, (ast.Return, ast.Raise)) for st in body for n in ast.walk(st))
    # free variables: every function parameter (except those rebound by the loop: they travel as state), plus typed locals read in the body
    params = [pp for pp in ctx.all_params if pp[0] not in state]
    pnames = {p for p, _ in params}
    used = []
    for st in body + [ast.Expr(value=node.iter)]:
        for n in ast.walk(st):
            if isinstance(n, ast.Name) and isinstance(n.ctx, ast.Load) and n.id not in used:
                used.append(n.id)
    frees = [(v, ctx.typ(v)) for v in used if v not in pnames and v not in state and v not in tgt_types and ctx.typ(v) not in (None, "List _")
             and v in getattr(ctx, "defined", set())]
    ctx.loop_counter += 1
    k = ctx.loop_counter
    aux_name = f"{ctx.fn_name}_loop{k}"
    fixed = " ".join(li(p) for p, _ in params + frees if not p.startswith(("{", "[")))
    st_names = [li(v) for v in state]
    st_types = [ctx.typ(v) for v in state]
    if not state:
        sigma, st_tuple = "Unit", "()"
    elif len(state) == 1:
        sigma, st_tuple = st_types[0], st_names[0]
    else:
        sigma, st_tuple = " × ".join(f"({t})" for t in st_types), "(" + ", ".join(st_names) + ")"
    rho = ctx.ret_type_full
    res_ty = f"Loop ({rho}) ({sigma})" if has_exit else sigma
    done = f".done {st_tuple}" if has_exit else st_tuple
    rec = f"{aux_name} {fixed} rest_ " + " ".join(st_names)
    # nested context for the body
    sub = Ctx(ctx.types, ctx.consts, ctx.raises, ctx.source, ctx.default_num)
    sub.types.update(tgt_types)
    sub.fn_name, sub.all_params, sub.aux, sub.fn_wrap = ctx.fn_name, ctx.all_params, ctx.aux, ctx.fn_wrap
    sub.ret_type_full = ctx.ret_type_full
    sub.loop_counter = ctx.loop_counter
    sub.join = getattr(ctx, "join", "scalar")
    sub.raisers = getattr(ctx, "raisers", {})
    sub.nat_sub = getattr(ctx, "nat_sub", False)
    sub.strict_remove = getattr(ctx, "strict_remove", False)
    sub.defined = set(getattr(ctx, "defined", set())) | set(tgt_types)
    sub.ctl = {"continue": lambda: rec.strip(), "break": lambda: done}
    sub.fall = lambda: rec.strip()
    if has_exit:
        sub.raise_wrap = lambda n: f'.ret ({ctx.raise_wrap_fn(n)})'
        sub.propagate = lambda r: f".ret {r}"
        body_ret = lambda v: f".ret ({ctx.fn_wrap(v)})"
    else:
        sub.raise_wrap = lambda n: (_ for _ in ()).throw(Untranslatable("raise in exit-free loop"))
        sub.propagate = lambda r: r
        body_ret = lambda v: (_ for _ in ()).throw(Untranslatable("return in exit-free loop"))
    sub.raise_wrap_fn = ctx.raise_wrap_fn
    body_txt = block(sub, body, body_ret, "    ")
    ctx.loop_counter = sub.loop_counter
    sig = " ".join((f"{{{p[1:-1]} : {t}}}" if p.startswith("{") else p if p.startswith("[") else f"({li(p)} : {t})") for p, t in params + frees)
    st_sig = " → ".join(f"({t})" for t in st_types)
    arrow = f"List ({et}) → " + (st_sig + " → " if st_types else "")
    pats_nil = ", ".join(["[]"] + st_names)
    pats_cons = ", ".join([f"{pat} :: rest_"] + st_names)
    ctx.aux.append(f"def {aux_name} {sig} : {arrow}{res_ty}\n  | {pats_nil} => {done}\n  | {pats_cons} =>\n    {body_txt}\n")
    call_ = f"{aux_name} {fixed} {it_expr} " + " ".join(st_names)
    if not has_exit:
        if not state:
            return block(ctx, rest, ret_wrap, ind)
        return f"let {st_tuple} := {call_.strip()}\n{ind}" + block(ctx, rest, ret_wrap, ind)
    return (f"match {call_.strip()} with\n{ind}| .ret r_ => {ctx.propagate('r_')}\n{ind}| .done {st_tuple} =>\n{ind}  "
            + block(ctx, rest, ret_wrap, ind + "  "))


def while_loop(ctx, node, rest, ret_wrap, ind):
    """`while cond: body` as a fuel-bounded recursion (`fuel` must be a parameter of the enclosing function); running out of
    fuel raises "FuelExhausted" -- the accompanying theorem shows it cannot happen for the fuel the caller passes"""
    if node.orelse:
        raise Untranslatable("while ... else")
    if not ctx.raises:
        raise Untranslatable("while loop in a non-raising function")
    if "fuel" not in {p for p, _ in ctx.all_params}:
        raise Untranslatable("while loop needs a `fuel` parameter")
    body = list(node.body)
    known = set(getattr(ctx, "defined", set())) | {p for p, _ in ctx.all_params}
    state = [v for v in assigned(body) if v in known]
    for v in state:
        if ctx.typ(v) in (None, "List _"):
            raise Untranslatable(f"loop state variable {v} has no concrete type")
    params = [pp for pp in ctx.all_params if pp[0] not in state and pp[0] != "fuel"]
    # typed locals defined before the loop and read (not rebound) inside it travel as fixed arguments, as in `for` loops
    pnames = {p for p, _ in ctx.all_params}
    used = []
    for st in body + [ast.Expr(value=node.test)]:
        for n in ast.walk(st):
            if isinstance(n, ast.Name) and isinstance(n.ctx, ast.Load) and n.id not in used:
                used.append(n.id)
    frees = [(v, ctx.typ(v)) for v in used if v not in pnames and v not in state and ctx.typ(v) not in (None, "List _") and v in getattr(ctx, "defined", set())]
    params = params + frees
    ctx.loop_counter += 1
    k = ctx.loop_counter
    aux_name = f"{ctx.fn_name}_while{k}"
    fixed = " ".join(li(p) for p, _ in params if not p.startswith(("{", "[")))
    st_names = [li(v) for v in state]
    st_types = [ctx.typ(v) for v in state]
    sigma = " × ".join(f"({t})" for t in st_types) if len(state) > 1 else (st_types[0] if state else "Unit")
    st_tuple = "(" + ", ".join(st_names) + ")" if len(state) > 1 else (st_names[0] if state else "()")
    rho = ctx.ret_type_full
    done = f".done {st_tuple}"
    rec = f"{aux_name} {fixed} fuel_ " + " ".join(st_names)
    sub = Ctx(ctx.types, ctx.consts, ctx.raises, ctx.source, ctx.default_num)
    sub.fn_name, sub.all_params, sub.aux, sub.fn_wrap = ctx.fn_name, ctx.all_params, ctx.aux, ctx.fn_wrap
    sub.ret_type_full, sub.loop_counter, sub.join = ctx.ret_type_full, ctx.loop_counter, getattr(ctx, "join", "scalar")
    sub.raisers = getattr(ctx, "raisers", {})
    sub.defined = set(getattr(ctx, "defined", set()))
    sub.ctl = {"continue": lambda: rec.strip(), "break": lambda: done}
    sub.fall = lambda: rec.strip()
    sub.raise_wrap = lambda n: f".ret ({ctx.raise_wrap_fn(n)})"
    sub.raise_wrap_fn = ctx.raise_wrap_fn
    sub.propagate = lambda r: f".ret {r}"
    cond = expr(sub, node.test)
    body_txt = block(sub, body, lambda v: f".ret ({ctx.fn_wrap(v)})", "      ")
    ctx.loop_counter = sub.loop_counter
    sig = " ".join((f"{{{p[1:-1]} : {t}}}" if p.startswith("{") else p if p.startswith("[") else f"({li(p)} : {t})") for p, t in params)
    st_sig = " → ".join(f"({t})" for t in st_types)
    pats0 = ", ".join(["0"] + st_names)
    pats1 = ", ".join(["fuel_ + 1"] + st_names)
    ctx.aux.append(f"def {aux_name} {sig} : Nat → " + (st_sig + " → " if st_types else "") + f"Loop ({rho}) ({sigma})\n"
                   f"  | {pats0} => .ret ({ctx.raise_wrap_fn('FuelExhausted')})\n  | {pats1} =>\n    if {cond} then\n      {body_txt}\n    else\n      {done}\n")
    call_ = f"{aux_name} {fixed} fuel " + " ".join(st_names)
    return (f"match {call_.strip()} with\n{ind}| .ret r_ => {ctx.propagate('r_')}\n{ind}| .done {st_tuple} =>\n{ind}  "
            + block(ctx, rest, ret_wrap, ind + "  "))


def find_func(tree, qual):
    body = tree.body
    node = None
    for p in qual.split("."):
        node = next(
            (n for n in body if isinstance(n, (ast.FunctionDef, ast.ClassDef)) and n.name == p), None
        )
        if node is None:
            raise Untranslatable(f"definition {qual} not found")
        body = node.body
    return node


def translate_function(
    source,
    qual,
    lean_name,
    params,
    ret,
    consts,
    types=None,
    raises=False,
    slice_from=None,
    slice_to=None,
    extra_params=(),
    default_num=None,
    returns_var=None,
    join="scalar",
    raisers=None,
    nat_sub=False,
    strict_remove=False,
):
    """Translate function `qual` (or a statement slice of it) into one Lean definition."""
    tree = ast.parse(source)
    fn = find_func(tree, qual)
    stmts = list(fn.body)

    def first_line(s):
        return (ast.get_source_segment(source, s) or "").split("\n")[0]

    if slice_from is not None:
        idx = next((i for i, s in enumerate(stmts) if slice_from in first_line(s)), None)
        if idx is None:
            raise Untranslatable(f"slice start {slice_from!r} not found in {qual}")
        stmts = stmts[idx:]
    if slice_to is not None:
        idx = next((i for i, s in enumerate(stmts) if slice_to in first_line(s)), None)
        if idx is None:
            raise Untranslatable(f"slice end {slice_to!r} not found in {qual}")
        stmts = stmts[:idx]
    if returns_var is not None:
        stmts = stmts + [ast.Return(value=ast.parse(returns_var, mode="eval").body)]
    t = dict(params)
    t.update(types or {})
    t["return"] = ret
    ctx = Ctx(t, consts, raises, source, default_num)
    wrap = (lambda v: f".ok {v}") if raises else (lambda v: v)
    rty = f"Except String ({ret})" if raises else ret
    ctx.fn_name = lean_name
    ctx.all_params = list(extra_params) + list(params.items())
    ctx.ret_type_full = rty
    ctx.raise_wrap_fn = lambda n: f'.error "{n}"'
    ctx.defined = set()
    ctx.join = join
    ctx.raisers = {norm(k): v for k, v in (raisers or {}).items()}
    ctx.nat_sub = nat_sub
    ctx.strict_remove = strict_remove
    body = block(ctx, stmts, wrap)
    sig = " ".join((f"{{{k[1:-1]} : {v}}}" if k.startswith("{") else k if k.startswith("[") else f"({li(k)} : {v})") for k, v in list(extra_params) + list(params.items()))
    return "\n".join(ctx.aux) + ("\n" if ctx.aux else "") + f"def {lean_name} {sig} : {rty} :=\n  {body}\n"


def translate_expression(source, node, lean_name, params, ret, consts, types=None, default_num=None):
    t = dict(params)
    t.update(types or {})
    ctx = Ctx(t, consts, False, source, default_num)
    sig = " ".join(f"({li(k)} : {v})" for k, v in params.items())
    return f"def {lean_name} {sig} : {ret} :=\n  {expr(ctx, node, ret)}\n"


def find_expressions(source, qual, pattern_re):
    """All sub-expressions of function `qual` whose unparsed text matches the regex, in source order."""
    tree = ast.parse(source)
    fn = find_func(tree, qual) if qual else tree
    rx = re.compile(pattern_re)
    hits = []
    for n in ast.walk(fn):
        if isinstance(n, ast.expr):
            txt = ast.unparse(n)
            if rx.fullmatch(txt):
                hits.append(n)
    hits.sort(key=lambda n: (n.lineno, n.col_offset))
    return hits
