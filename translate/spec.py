"""Whitelist of the source items that are regenerated into Lean on every run.

Each item produces one file lean/FractopoModel/Generated/<File>.lean (namespace Gen).
`props` lists the properties whose theorems mention the item; a failing item is
the broken obligation ``translate:<name>`` of exactly those properties.
"""
from __future__ import annotations

import ast
import re
from dataclasses import dataclass, field
from typing import Callable, Dict, List, Optional, Tuple

from py2lean import (
    Untranslatable,
    dec_to_rat,
    find_expressions,
    find_func,
    translate_expression,
    translate_function,
)


@dataclass
class Item:
    name: str  # lean file / obligation name
    module: str  # source file relative to the repo root
    props: List[str]
    build: Callable  # (sources: dict path->text) -> lean text (without header)
    deps: List[str] = field(default_factory=list)  # other generated files to import
    extra_modules: List[str] = field(default_factory=list)


def module_consts(source: str) -> Dict[str, str]:
    """Top-level NAME = <str|int|float literal> assignments as Lean expressions."""
    out = {}
    for st in ast.parse(source).body:
        if isinstance(st, ast.Assign) and len(st.targets) == 1 and isinstance(st.targets[0], ast.Name):
            v = st.value
            if isinstance(v, ast.Constant) and isinstance(v.value, str):
                out[st.targets[0].id] = '"' + v.value.replace('"', '\\"') + '"'
    return out


GENERAL = "fractopo/general.py"
BAN = "fractopo/branches_and_nodes.py"
PARAMS = "fractopo/analysis/parameters.py"
NETWORK = "fractopo/analysis/network.py"
AZIMUTH = "fractopo/analysis/azimuth.py"
SUBS = "fractopo/analysis/subsampling.py"
RSAMP = "fractopo/analysis/random_sampling.py"
REL = "fractopo/analysis/relationships.py"
GRID = "fractopo/analysis/contour_grid.py"
TVAL = "fractopo/tval/trace_validation.py"
TVALS = "fractopo/tval/trace_validators.py"
TVU = "fractopo/tval/trace_validation_utils.py"
PROX = "fractopo/tval/proximal_traces.py"
CLI = "fractopo/cli.py"
LDIST = "fractopo/analysis/length_distributions.py"
LINEDATA = "fractopo/analysis/line_data.py"


def gconsts(S):
    return module_consts(S[GENERAL])


# ---------------------------------------------------------------- C05 / C01


def b_branch_identity(S):
    return translate_function(
        S[BAN],
        "determine_branch_identity",
        "determine_branch_identity",
        {"number_of_i_nodes": "Nat", "number_of_xy_nodes": "Nat", "number_of_e_nodes": "Nat"},
        "String",
        gconsts(S),
        types={"branch_type": "String"},
        default_num="Nat",
    )


def b_degree_to_class(S):
    return translate_function(
        S[BAN],
        "node_identity",
        "degree_to_class",
        {"intersecting_node_count": "Nat"},
        "String",
        gconsts(S),
        types={"node_type": "String"},
        slice_from="if intersecting_node_count == 0",
        default_num="Nat",
    )


def _scaled_threshold_exprs(source, qual, var="snap_threshold"):
    """expressions `<var> * <float>` inside function qual, in source order"""
    return find_expressions(source, qual, rf"{var} \* [0-9.]+")


def b_length_filters(S):
    hits = _scaled_threshold_exprs(S[BAN], "branches_and_nodes")
    if len(hits) != 2:
        raise Untranslatable(f"expected 2 length-filter bounds in branches_and_nodes, found {len(hits)}")
    src = S[BAN]
    # each must be the right operand of a strict `length > bound` comparison
    tree = ast.parse(src)
    fn = find_func(tree, "branches_and_nodes")
    cmps = [
        n
        for n in ast.walk(fn)
        if isinstance(n, ast.Compare)
        and len(n.ops) == 1
        and re.fullmatch(r"snap_threshold \* [0-9.]+", ast.unparse(n.comparators[0]) or "")
    ]
    cmps.sort(key=lambda n: n.lineno)
    if len(cmps) != 2 or not all(isinstance(c.ops[0], ast.Gt) and ast.unparse(c.left).endswith(".length") for c in cmps):
        raise Untranslatable("length filters are not of the form `<x>.length > snap_threshold * c`")
    outs = []
    for c, nm in zip(cmps, ("trace_length_keep", "branch_length_keep")):
        left = ast.get_source_segment(src, c.left)
        outs.append(
            translate_expression(
                src, c, nm, {"length": "Rat", "snap_threshold": "Rat"}, "Bool",
                {left: "length"}, types={left: "Rat"}, default_num="Rat",
            )
        )
    return "\n".join(outs)


def b_snap_constants(S):
    src = S[BAN]
    tree = ast.parse(src)
    # candidate window of resolve_trace_candidates: the `extended_bounds` tuple
    rfn0 = find_func(tree, "resolve_trace_candidates")
    eb = [st for st in rfn0.body if isinstance(st, ast.Assign) and ast.unparse(st.targets[0]) == "extended_bounds"]
    if len(eb) != 1 or not isinstance(eb[0].value, ast.Tuple) or len(eb[0].value.elts) != 4:
        raise Untranslatable("extended_bounds tuple not found in resolve_trace_candidates")
    out = translate_expression(
        src, eb[0].value, "snap_extended_bounds",
        {"minx": "Rat", "miny": "Rat", "maxx": "Rat", "maxy": "Rat", "snap_threshold": "Rat"},
        "Rat × Rat × Rat × Rat", {}, default_num="Rat")
    fn = find_func(tree, "branches_and_nodes")
    al = None
    for a, d in zip(fn.args.args[-len(fn.args.defaults):], fn.args.defaults):
        if a.arg == "allowed_loops":
            al = d
    if al is None or not isinstance(al, ast.Constant) or not isinstance(al.value, int):
        raise Untranslatable("allowed_loops default not found")
    out += f"\ndef allowed_loops_default : Nat := {al.value}\n"
    # report_snapping_loop: raises when loops > allowed_loops
    rfn = find_func(tree, "report_snapping_loop")
    cond = [n for n in ast.walk(rfn) if isinstance(n, ast.If) and any(isinstance(b, ast.Raise) for b in n.body)]
    if len(cond) != 1:
        raise Untranslatable("report_snapping_loop shape")
    out += "\n" + translate_expression(src, cond[0].test, "snapping_loop_raises", {"loops": "Nat", "allowed_loops": "Nat"}, "Bool", {})
    return out


def _kwcall(source, qual, fname, expected_kw):
    """the unique call `fname(k=v, ...)` inside function `qual` whose keyword arguments are exactly `expected_kw`
    (values compared as unparsed text); returns its source text (to be used as a constant key)"""
    fn = find_func(ast.parse(source), qual)
    calls = [n for n in ast.walk(fn) if isinstance(n, ast.Call) and ast.unparse(n.func) == fname]
    if len(calls) != 1:
        raise Untranslatable(f"{qual}: expected one call of {fname}, found {len(calls)}")
    c = calls[0]
    got = {k.arg: ast.unparse(k.value) for k in c.keywords}
    if c.args or got != expected_kw:
        raise Untranslatable(f"{qual}: call of {fname} passes {got} (positional {len(c.args)}), expected {expected_kw}")
    return ast.get_source_segment(source, c)


GEO_PARAMS = [("{E}", "Type"), ("{A}", "Type")]


def b_node_identity(S):
    """whole `node_identity` and the loop of `node_identities_from_branches`; geometry and the spatial index are parameters"""
    C = dict(gconsts(S))
    C.update({
        "areas.geometry.values": "areas",
        "endpoint.distance(area.boundary)": "(bdist endpoint area)",
        "list(endpoints_spatial_index.intersection(endpoint.coords[0]))": "(query endpoint)",
        "endpoints_geoseries.iloc[candidate_idxs]": "(List.map endpoints_geoseries candidate_idxs)",
        "candidate.distance(endpoint)": "(dist candidate endpoint)",
    })
    T = {"areas.geometry.values": "List A", "endpoint.distance(area.boundary)": "Rat", "candidate.distance(endpoint)": "Rat",
         "list(endpoints_spatial_index.intersection(endpoint.coords[0]))": "List Nat", "candidate_idxs": "List Nat",
         "endpoints_geoseries.iloc[candidate_idxs]": "List E", "candidates": "List E", "node_type": "String", "intersecting_node_count": "Nat"}
    extra = GEO_PARAMS + [("bdist", "E → A → Rat"), ("dist", "E → E → Rat"), ("query", "E → List Nat")]
    out = translate_function(
        S[BAN], "node_identity", "node_identity",
        {"endpoint": "E", "idx": "Nat", "areas": "List A", "endpoints_geoseries": "Nat → E", "snap_threshold": "Rat"}, "String", C, types=T,
        extra_params=extra, default_num="Nat")
    # the collection loop
    call_txt = _kwcall(S[BAN], "node_identities_from_branches", "node_identity",
                       {"endpoint": "endpoint", "idx": "idx", "areas": "areas", "endpoints_geoseries": "all_endpoints_geoseries",
                        "endpoints_spatial_index": "endpoints_spatial_index", "snap_threshold": "snap_threshold"})
    fn = find_func(ast.parse(S[BAN]), "node_identities_from_branches")
    pre = {ast.unparse(st.targets[0]): ast.unparse(st.value) for st in fn.body if isinstance(st, ast.Assign) and len(st.targets) == 1}
    ann = {ast.unparse(st.target): ast.unparse(st.value) for st in fn.body if isinstance(st, ast.AnnAssign) and st.value is not None}
    if ann.get("all_endpoints") != "list(chain(*[list(get_trace_endpoints(branch)) for branch in branches.geometry.values]))":
        raise Untranslatable("all_endpoints is not the chained list of the branches' end points")
    if pre.get("all_endpoints_geoseries") != "gpd.GeoSeries(all_endpoints)" or ann.get("endpoints_spatial_index") != "all_endpoints_geoseries.sindex":
        raise Untranslatable("endpoint series / spatial index are not built from all_endpoints")
    C2 = dict(gconsts(S))
    C2.update({"endpoint.wkt": "(key endpoint)", call_txt: "(node_identity bdist dist query endpoint idx areas (fun i => all_endpoints.getD i dflt) snap_threshold)",
               "dict()": "[]", "list(collected_nodes.values())": "(List.map Prod.snd collected_nodes)"})
    T2 = {"endpoint.wkt": "K", "collected_nodes": "AList K (E × String)", call_txt: "String", "identity": "String", "values": "List (E × String)",
          "list(collected_nodes.values())": "List (E × String)", "nodes": "List E", "identities": "List String", "all_endpoints": "List E", "value": "E × String"}
    out += "\n" + translate_function(
        S[BAN], "node_identities_from_branches", "node_identities_from_branches",
        {"all_endpoints": "List E", "areas": "List A", "snap_threshold": "Rat"}, "List E × List String", C2, types=T2,
        extra_params=GEO_PARAMS + [("{K}", "Type"), ("[BEq K]", ""), ("bdist", "E → A → Rat"), ("dist", "E → E → Rat"), ("query", "E → List Nat"), ("key", "E → K"), ("dflt", "E")],
        slice_from="collected_nodes", default_num="Nat")
    return out


def b_branch_identities(S):
    """the loop of `get_branch_identities`; the bounding-box query and the distances are parameters"""
    src = S[BAN]
    q_txt = _kwcall(src, "get_branch_identities", "spatial_index_intersection", {"spatial_index": "node_spatial_index", "coordinates": "geom_bounds(branch)"})
    fn = find_func(ast.parse(src), "get_branch_identities")
    pre = {ast.unparse(st.targets[0]): ast.unparse(st.value) for st in fn.body if isinstance(st, ast.Assign) and len(st.targets) == 1}
    if pre.get("node_spatial_index") != "nodes.sindex":
        raise Untranslatable("node_spatial_index is not nodes.sindex")
    dist_txt = "node_candidates.distance(MultiPoint(list(get_trace_endpoints(branch)))).values"
    C = dict(gconsts(S))
    C.update({
        "branches.geometry.values": "branches", q_txt: "(bquery branch)",
        "nodes.iloc[node_candidate_idxs]": "(List.map nodes node_candidate_idxs)",
        "node_identities[i]": "(node_identities.getD i \"\")",
        dist_txt: "(List.map (fun n => edist n branch) node_candidates)",
        "list(compress(node_candidate_types, inter))": "(pyCompress node_candidate_types inter)",
        "determine_branch_identity": "determine_branch_identity",
    })
    T = {"branches.geometry.values": "List B", q_txt: "List Nat", "node_candidate_idxs": "List Nat", "nodes.iloc[node_candidate_idxs]": "List N",
         "node_candidates": "List N", "node_identities[i]": "String", "node_candidate_types": "List String", dist_txt: "List Rat", "dist": "Rat",
         "inter": "List Bool", "list(compress(node_candidate_types, inter))": "List String", "nodes_that_intersect_types": "List String",
         "inter_id": "String", "number_of_E_nodes": "Nat", "number_of_I_nodes": "Nat", "number_of_XY_nodes": "Nat", "branch_identities": "List String",
         "determine_branch_identity()": ["Nat", "Nat", "Nat"]}
    return translate_function(
        src, "get_branch_identities", "get_branch_identities",
        {"branches": "List B", "nodes": "Nat → N", "node_identities": "List String", "snap_threshold": "Rat"}, "List String", C, types=T,
        extra_params=[("{B}", "Type"), ("{N}", "Type"), ("bquery", "B → List Nat"), ("edist", "N → B → Rat")],
        slice_from="branch_identities = []", default_num="Nat")


# ---------------------------------------------------------------- C08


def b_boundary_weight(S):
    return translate_function(
        S[GENERAL],
        "intersection_count_to_boundary_weight",
        "intersection_count_to_boundary_weight",
        {"intersection_count": "Int"},
        "Int",
        gconsts(S),
        raises=True,
        slice_from="if intersection_count == 0",
        default_num="Int",
    )


def param_table(S):
    tree = ast.parse(S[GENERAL])
    cls = find_func(tree, "Param")
    rows = []
    for st in cls.body:
        if isinstance(st, ast.Assign):
            c = st.value
            if not (isinstance(c, ast.Call) and ast.unparse(c.func) == "ParamInfo"):
                raise Untranslatable("Param member is not a ParamInfo(...)")
            kw = {k.arg: k.value for k in c.keywords}
            name = c.args[0] if c.args else kw["name"]
            agg = c.args[4] if len(c.args) > 4 else kw["aggregator"]
            needs = c.args[3] if len(c.args) > 3 else kw["needs_topology"]
            rows.append((st.targets[0].id, name.value, ast.unparse(agg), bool(needs.value)))
    return rows


def b_param_table(S):
    rows = param_table(S)
    out = "def paramNames : List String := [" + ", ".join(f'"{n}"' for _, n, _, _ in rows) + "]\n\n"
    out += "/-- parameter name ↦ aggregator used by subsample aggregation -/\n"
    out += "def paramAggregator : List (String × String) := [\n  " + ",\n  ".join(
        f'("{n}", "{a.split(".")[-1]}")' for _, n, a, _ in rows
    ) + "]\n"
    return out


def b_topology_parameters(S):
    C = dict(gconsts(S))
    C["np.pi"] = "pi"
    C["Param"] = "paramNames"
    C["param.value.name"] = "param"
    T = {
        "radius": "Rat",
        "trace_mean_length_mauldon": "Val",
        "fracture_density_mauldon": "Val",
        "fracture_intensity_mauldon": "Val",
        "params_without_topology": "Dict",
        "number_of_traces": "Rat",
        "number_of_branches": "Rat",
        "trace_length_array": "List Rat",
        "branch_length_array": "List Rat",
        "len(trace_length_array)": "Nat",
        "len(branch_length_array)": "Nat",
    }
    for member, name, _, _ in param_table(S):
        C[f"Param.{member}.value.name"] = '"' + name + '"'
    for k in ("X_node", "Y_node", "I_node", "E_node"):
        C[f"node_counts[{k}]"] = f"(node_counts {C[k]})"
        T[f"node_counts[{k}]"] = "Rat"
    return translate_function(
        S[PARAMS],
        "determine_topology_parameters",
        "determine_topology_parameters",
        {
            "trace_length_array": "List Rat",
            "area": "Rat",
            "branches_defined": "Bool",
            "correct_mauldon": "Bool",
            "node_counts": "String → Rat",
            "branch_length_array": "List Rat",
        },
        "List (String × Val)",
        C,
        types=T,
        raises=True,
        extra_params=[("pi", "Rat"), ("sqrt", "Rat → Rat")],
        default_num="Rat",
    )


def b_boundary_lines(S):
    """`determine_boundary_intersecting_lines`: both loops (areas x candidate lines of the area's extended window), the near-boundary
    test, the two ways of cutting through, the two boolean arrays over the frame's index values"""
    src = S[GENERAL]
    q = "determine_boundary_intersecting_lines"
    C = {
        "area_gdf.geometry.values": "areas",
        "geom_bounds(target_area)": "((), (), (), ())",
        "target_area_bounds": "((), (), (), ())",
        "spatial_index.intersection(extend_bounds(min_x=min_x, min_y=min_y, max_x=max_x, max_y=max_y, extend_amount=snap_threshold * 100))": "()",
        "list(intersection if intersection is not None else [])": "(wq target_area)",
        "line_gdf.iloc[candidate_idx].geometry": "(line_at candidate_idx)",
        "line.distance(target_area.boundary)": "(ldist line target_area)",
        "get_trace_endpoints(line)": "(ends_of line)",
        "endpoint.distance(target_area.boundary)": "(pdist endpoint target_area)",
        "endpoint.within(target_area)": "(within endpoint target_area)",
        "np.isclose(line.distance(target_area), 0)": "(touches line target_area)",
        "line_gdf.index.values": "index_values",
    }
    T = {"area_gdf.geometry.values": "List A", "geom_bounds(target_area)": "Unit × Unit × Unit × Unit", "target_area_bounds": "Unit × Unit × Unit × Unit",
         "spatial_index.intersection(extend_bounds(min_x=min_x, min_y=min_y, max_x=max_x, max_y=max_y, extend_amount=snap_threshold * 100))": "Unit",
         "intersection": "Unit", "list(intersection if intersection is not None else [])": "List Nat", "candidate_idxs": "List Nat",
         "line_gdf.iloc[candidate_idx].geometry": "L", "line": "L", "line.distance(target_area.boundary)": "Rat", "get_trace_endpoints(line)": "List P",
         "endpoints": "List P", "endpoint.distance(target_area.boundary)": "Rat", "endpoint.within(target_area)": "Bool",
         "np.isclose(line.distance(target_area), 0)": "Bool", "line_gdf.index.values": "List Nat", "intersecting_idxs": "List Nat", "cuts_through_idxs": "List Nat",
         "intersecting_lines": "List Bool", "cuts_through_lines": "List Bool", "candidate_idx": "Nat", "idx": "Nat"}
    return translate_function(
        src, q, "boundary_intersecting_lines", {"snap_threshold": "Rat"}, "List Bool × List Bool", C, types=T,
        extra_params=[("{A}", "Type"), ("{L}", "Type"), ("{P}", "Type"), ("areas", "List A"), ("wq", "A → List Nat"), ("line_at", "Nat → L"), ("ldist", "L → A → Rat"),
                      ("ends_of", "L → List P"), ("pdist", "P → A → Rat"), ("within", "P → A → Bool"), ("touches", "L → A → Bool"), ("index_values", "List Nat")],
        slice_from="intersecting_idxs = []", default_num="Rat", join="tuple")


def b_branch_boundary(S):
    """elementwise reading of branches_intersect_boundary / branch_intersects_target_area_boundary / bool_arrays_sum"""
    C = gconsts(S)
    tree = ast.parse(S[PARAMS])
    fn = find_func(tree, "branches_intersect_boundary")
    assigns = [st for st in fn.body if isinstance(st, ast.Assign)]
    if len(assigns) != 1:
        raise Untranslatable("branches_intersect_boundary shape")
    v = assigns[0].value
    ok = (
        isinstance(v, ast.UnaryOp) and isinstance(v.op, ast.Invert) and isinstance(v.operand, ast.Call)
        and ast.unparse(v.operand.func) == "np.isin" and len(v.operand.args) == 2
        and ast.unparse(v.operand.args[0]) == "branch_types" and isinstance(v.operand.args[1], ast.Tuple)
    )
    rets = [st for st in fn.body if isinstance(st, ast.Return)]
    if not ok or len(rets) != 1 or ast.unparse(rets[0].value) != ast.unparse(assigns[0].targets[0]):
        raise Untranslatable("branches_intersect_boundary is not `~np.isin(branch_types, (...))`")
    elts = []
    for e in v.operand.args[1].elts:
        if not (isinstance(e, ast.Name) and e.id in C):
            raise Untranslatable("non-constant branch class in isin tuple")
        elts.append(C[e.id])
    out = "def branch_intersects_boundary (branch_type : String) : Bool :=\n  (!(List.elem branch_type [" + ", ".join(elts) + "]))\n\n"
    # cuts_through in Network.branch_intersects_target_area_boundary
    ntree = ast.parse(S[NETWORK])
    nfn = find_func(ntree, "Network.branch_intersects_target_area_boundary")
    comps = [n for n in ast.walk(nfn) if isinstance(n, ast.ListComp) and ast.unparse(n.generators[0].iter) == "self.branch_types"]
    if len(comps) != 1:
        raise Untranslatable("cuts_through comprehension not found")
    out += translate_expression(S[NETWORK], comps[0].elt, "branch_cuts_through", {"branch_type": "String"}, "Bool", C, types={"branch_type": "String"})
    calls = [n for n in ast.walk(nfn) if isinstance(n, ast.Call) and ast.unparse(n.func) == "bool_arrays_sum"]
    if len(calls) != 1 or [ast.unparse(a) for a in calls[0].args] != ["intersecting_lines", "cuts_through_lines"]:
        raise Untranslatable("bool_arrays_sum call shape")
    # bool_arrays_sum: elementwise int(a) + int(b)
    gfn = find_func(ast.parse(S[GENERAL]), "bool_arrays_sum")
    comps = [n for n in ast.walk(gfn) if isinstance(n, ast.ListComp)]
    if len(comps) != 1 or ast.unparse(comps[0].generators[0].iter) != "zip(arr_1, arr_2)":
        raise Untranslatable("bool_arrays_sum shape")
    elt = ast.unparse(comps[0].elt)
    if elt != "int(val_1) + int(val_2)":
        raise Untranslatable(f"bool_arrays_sum element {elt}")
    out += "\ndef bool_sum (val_1 : Bool) (val_2 : Bool) : Nat :=\n  ((if val_1 then 1 else 0) + (if val_2 then 1 else 0))\n"
    out += "\ndef branch_boundary_count (branch_type : String) : Nat :=\n  bool_sum (branch_intersects_boundary branch_type) (branch_cuts_through branch_type)\n"
    return out


# ---------------------------------------------------------------- C15


def b_is_set(S):
    return translate_function(
        S[GENERAL],
        "is_set",
        "is_set",
        {"value": "Rat", "value_range": "Rat × Rat", "loop_around": "Bool"},
        "Bool",
        gconsts(S),
        types={"value_range[0]": "Rat", "value_range[1]": "Rat"},
        default_num="Rat",
    )


def b_determine_set(S):
    C = dict(gconsts(S))
    C["is_set"] = "is_set"
    return translate_function(
        S[GENERAL],
        "determine_set",
        "determine_set",
        {
            "value": "Rat",
            "value_ranges": "List (Rat × Rat)",
            "set_names": "List String",
            "loop_around": "Bool",
        },
        "String",
        C,
        types={"possible_set_name": "List String"},
        raises=True,
        default_num="Nat",
    )


def b_azimuth_post(S):
    return translate_function(
        S[GENERAL],
        "determine_azimuth",
        "azimuth_post",
        {"azimuth": "Rat", "halved": "Bool"},
        "Rat",
        gconsts(S),
        slice_from="if azimuth < 0",
        default_num="Rat",
    )


def b_is_azimuth_close(S):
    return translate_function(
        S[GENERAL],
        "is_azimuth_close",
        "is_azimuth_close",
        {"first": "Rat", "second": "Rat", "tolerance": "Rat", "halved": "Bool"},
        "Bool",
        gconsts(S),
        types={"diff": "Rat"},
        default_num="Rat",
    )


def b_default_azimuth_sets(S):
    tree = ast.parse(S[NETWORK])
    cls = find_func(tree, "Network")
    found = {}
    for st in cls.body:
        if isinstance(st, ast.AnnAssign) and isinstance(st.target, ast.Name) and st.target.id in (
            "azimuth_set_ranges",
            "azimuth_set_names",
        ):
            found[st.target.id] = st.value
    if set(found) != {"azimuth_set_ranges", "azimuth_set_names"}:
        raise Untranslatable("Network default azimuth sets not found")
    rng = ast.literal_eval(found["azimuth_set_ranges"])
    names = ast.literal_eval(found["azimuth_set_names"])
    out = "def default_azimuth_set_ranges : List (Rat × Rat) := [" + ", ".join(
        f"({dec_to_rat(repr(a))}, {dec_to_rat(repr(b))})" for a, b in rng
    ) + "]\n"
    out += "def default_azimuth_set_names : List String := [" + ", ".join(f'"{n}"' for n in names) + "]\n"
    return out


def b_calc_bins(S):
    out = translate_function(
        S[AZIMUTH], "_calc_bins", "calc_bins",
        {"ideal_bin_width": "Rat", "axial": "Bool"}, "List Rat × Rat", {},
        types={"max_angle": "Rat", "div": "Rat", "rounded_div": "Int", "bin_width": "Rat", "start": "Rat", "end": "Rat", "bin_edges": "List Rat"},
        default_num="Rat",
    )
    out += "\n" + translate_function(
        S[AZIMUTH], "_calc_locs", "calc_locs",
        {"bin_width": "Rat", "axial": "Bool"}, "List Rat", {},
        types={"max_angle": "Rat", "start": "Rat", "end": "Rat", "locs": "List Rat"},
        default_num="Rat",
    )
    return out


def b_azimuth_bins(S):
    """whole `determine_azimuth_bins`: ideal width from the SAMPLE SIZE (the cube root is a parameter), times the multiplier, the regenerated `_calc_bins` / `_calc_locs`,
    unit weights when no lengths are given, `np.histogram(azimuths, edges, weights=lengths)` (prelude `pyHistogram`), and which values go into which field of the result.
    One checked rewriting turns the `if length_array is None` re-binding into one expression."""
    src = standalone(S[AZIMUTH], "determine_azimuth_bins", [
        (r"if length_array is None:\n(\s*#[^\n]*\n)*\s*length_array = np\.array\(\[1\.0\] \* \(len\(azimuth_array\)\)\)", "weights = WEIGHTS_OR_ONES"),
        (r"np\.histogram\(azimuth_array, bin_edges, weights=length_array\)", "HISTOGRAM"),
    ])
    if len(re.findall(r"\bWEIGHTS_OR_ONES\b", src)) != 1 or len(re.findall(r"\bHISTOGRAM\b", src)) != 1 or re.search(r"^\s*length_array\s*=", src, re.M):
        raise Untranslatable("determine_azimuth_bins: default weights / histogram call changed")
    C = {"_calc_ideal_bin_width(len(azimuth_array), axial=axial)": "(ideal_ (List.length azimuth_array) axial)",
         "_calc_bins(ideal_bin_width, axial=axial)": "(calc_bins ideal_bin_width axial)",
         "_calc_locs(bin_width, axial=axial)": "(calc_locs bin_width axial)",
         "WEIGHTS_OR_ONES": "(match length_array with | none => List.replicate (List.length azimuth_array) (1 : Rat) | some l => l)",
         "HISTOGRAM": "(pyHistogram azimuth_array bin_edges weights, ())",
         "AzimuthBins(bin_width=bin_width, bin_locs=bin_locs, bin_heights=bin_heights)": "(bin_width, bin_locs, bin_heights)"}
    T = {"_calc_ideal_bin_width(len(azimuth_array), axial=axial)": "Rat", "_calc_bins(ideal_bin_width, axial=axial)": "List Rat × Rat", "_calc_locs(bin_width, axial=axial)": "List Rat",
         "WEIGHTS_OR_ONES": "List Rat", "HISTOGRAM": "List Rat × Unit", "ideal_bin_width": "Rat", "bin_edges": "List Rat", "bin_width": "Rat", "bin_locs": "List Rat",
         "weights": "List Rat", "bin_heights": "List Rat", "_": "Unit",
         "AzimuthBins(bin_width=bin_width, bin_locs=bin_locs, bin_heights=bin_heights)": "Rat × List Rat × List Rat"}
    return translate_function(
        src, "determine_azimuth_bins", "determine_azimuth_bins",
        {"azimuth_array": "List Rat", "length_array": "Option (List Rat)", "bin_multiplier": "Rat", "axial": "Bool"}, "Rat × List Rat × List Rat", C, types=T,
        extra_params=[("ideal_", "Nat → Bool → Rat")], default_num="Rat")


def b_random_radius(S):
    C = {"self.max_radius": "max_radius", "self.min_radius": "min_radius", "np.random.random_sample()": "u",
         "self.max_area": "max_area", "self.min_area": "min_area"}
    T = {"self.max_radius": "Rat", "self.min_radius": "Rat", "np.random.random_sample()": "Rat", "self.max_area": "Rat", "self.min_area": "Rat"}
    out = translate_function(
        S[RSAMP], "NetworkRandomSampler.random_radius", "random_radius",
        {"min_radius": "Rat", "max_radius": "Rat", "u": "Rat"}, "Rat", C, types=dict(T, radius_range="Rat", radius="Rat"), default_num="Rat")
    out += "\n" + translate_function(
        S[RSAMP], "NetworkRandomSampler.random_area", "random_area",
        {"min_area": "Rat", "max_area": "Rat", "u": "Rat"}, "Rat", C, types=dict(T, area_range="Rat", area="Rat"), default_num="Rat")
    # radius of the disc the sample centre is drawn from
    hits = find_expressions(S[RSAMP], "NetworkRandomSampler.random_target_circle", r"self\.max_radius - radius")
    if len(hits) != 1:
        raise Untranslatable("centre buffer radius expression not found")
    out += "\n" + translate_expression(S[RSAMP], hits[0], "centre_buffer_radius", {"max_radius": "Rat", "radius": "Rat"}, "Rat", C, types=T)
    out += "\n" + translate_function(
        S[GENERAL], "calc_circle_radius", "calc_circle_radius", {"area": "Rat"}, "Rat", {"np.pi": "pi"},
        types={"radius": "Rat"}, extra_params=[("pi", "Rat"), ("sqrt", "Rat → Rat")], slice_from="radius =", default_num="Rat")
    out += "\n" + translate_function(
        S[GENERAL], "calc_circle_area", "calc_circle_area", {"radius": "Rat"}, "Rat", {"np.pi": "pi"},
        extra_params=[("pi", "Rat")], default_num="Rat")
    return out


def b_random_sample(S):
    """whole `NetworkRandomSampler.random_network_sample`: the random circle (parameter), its one-row area frame carrying the CRS of the source traces when they have one, the
    `Network(...)` call with its keyword arguments checked one by one (the WHOLE source frame, that area, truncation and circular area switched on) as an Option-valued oracle
    (`none` = it raised ValueError), and which value goes into which field of the result. One checked rewriting drops the annotation of the assignment inside `try`."""
    q = "NetworkRandomSampler.random_network_sample"
    src = standalone(S[RSAMP], q, [(r"network_maybe: Optional\[Network\] = Network\(", "network_maybe = Network(")])
    if src.count("network_maybe = Network(") != 1:
        raise Untranslatable("random_network_sample: the Network call inside try changed")
    net_call = _kwcall(src, "random_network_sample", "Network", {
        "trace_gdf": "self.trace_gdf", "area_gdf": "area_gdf", "name": "self.name", "determine_branches_nodes": "determine_branches_nodes",
        "snap_threshold": "self.snap_threshold", "circular_target_area": "True", "truncate_traces": "True"})
    res_call = _kwcall(src, "random_network_sample", "RandomSample", {
        "network_maybe": "network_maybe", "target_centroid": "target_centroid", "radius": "radius", "name": "self.name"})
    C = {"self.random_target_circle()": "circle_", "gpd.GeoDataFrame({GEOMETRY_COLUMN: [target_circle]})": "(area_frame target_circle)",
         "self.trace_gdf.crs": "crs", "area_gdf.set_crs(self.trace_gdf.crs)": "(set_crs area_gdf crs)",
         net_call: "(network_ trace_gdf area_gdf name determine_branches_nodes snap_threshold true true)",
         res_call: "(network_maybe, target_centroid, radius, name)"}
    T = {"self.random_target_circle()": "C × P × Rat", "target_circle": "C", "target_centroid": "P", "radius": "Rat",
         "gpd.GeoDataFrame({GEOMETRY_COLUMN: [target_circle]})": "Ar", "area_gdf": "Ar", "self.trace_gdf.crs": "Option Crs", "area_gdf.set_crs(self.trace_gdf.crs)": "Ar",
         net_call: "Option N", "network_maybe": "Option N", res_call: "Option N × P × Rat × String"}
    return translate_function(
        src, "random_network_sample", "random_network_sample", {"determine_branches_nodes": "Bool"}, "Option N × P × Rat × String", C, types=T,
        extra_params=[("{C}", "Type"), ("{P}", "Type"), ("{Ar}", "Type"), ("{Crs}", "Type"), ("{N}", "Type"), ("{F}", "Type"), ("trace_gdf", "F"), ("crs", "Option Crs"), ("name", "String"),
                      ("snap_threshold", "Rat"), ("circle_", "C × P × Rat"), ("area_frame", "C → Ar"), ("set_crs", "Ar → Option Crs → Ar"),
                      ("network_", "F → Ar → String → Bool → Rat → Bool → Bool → Option N")],
        default_num="Rat", join="tuple")


def b_geo_reader(S):
    """whole `read_geofile`: what `gpd.read_file(path)` returns NOW (parameter), TypeError unless it is a frame; and the function carries no decorator (a memo keyed by
    the path would be invisible in its body)."""
    fn = find_func(ast.parse(S[GENERAL]), "read_geofile")
    if fn.decorator_list:
        raise Untranslatable("read_geofile: decorated (" + ", ".join(ast.unparse(d) for d in fn.decorator_list) + ")")
    C = {"gpd.read_file(path)": "(read_ path)", "isinstance(data, gpd.GeoDataFrame)": "(is_frame data)"}
    T = {"gpd.read_file(path)": "D", "isinstance(data, gpd.GeoDataFrame)": "Bool", "data": "D"}
    return translate_function(S[GENERAL], "read_geofile", "read_geofile", {"path": "String"}, "D", C, types=T, raises=True,
                              extra_params=[("{D}", "Type"), ("read_", "String → D"), ("is_frame", "D → Bool")], default_num="Nat")


def b_aggregate_dispatch(S):
    """default aggregator of aggregate_chosen and the fallback chain (shape-checked constants)"""
    tree = ast.parse(S[SUBS])
    fn = find_func(tree, "aggregate_chosen")
    d = None
    for a, dflt in zip(fn.args.args[-len(fn.args.defaults):], fn.args.defaults):
        if a.arg == "default_aggregator":
            d = ast.unparse(dflt)
    if d is None:
        raise Untranslatable("default_aggregator not found")
    out = f'def default_aggregator : String := "{d.split(".")[-1]}"\n'
    # weights are the Area column
    hits = [n for n in ast.walk(fn) if isinstance(n, ast.Assign) and ast.unparse(n.targets[0]) == "area_values"]
    if len(hits) != 1 or "general.Param.AREA.value.name" not in ast.unparse(hits[0].value):
        raise Untranslatable("area_values is not the Area column")
    out += 'def weight_column : String := "Area"\n'
    return out


def b_subsampling(S):
    """`group_gathered_subsamples` and `aggregate_chosen`: loops regenerated; a row is a function column -> cell, the aggregator
    functions are an Option-valued oracle (`none` = raised) and `fallback_aggregation` a parameter"""
    rows = param_table(S)
    area_name = next(n for m, n, _, _ in rows if m == "AREA")
    kf = _kwcall(S[SUBS], "group_gathered_subsamples", "groupby_keyfunc", {"item": "item", "groupby_column": "groupby_column"})
    out = translate_function(
        S[SUBS], "group_gathered_subsamples", "group_gathered_subsamples",
        {"subsamples": "List I"}, "AList String (List I)",
        {kf: "(keyf item)", "isinstance(key, str)": "true", "{}": "[]"},
        types={kf: "String", "key": "String", "grouped": "AList String (List I)", "isinstance(key, str)": "Bool"},
        extra_params=[("{I}", "Type"), ("keyf", "I → String")], default_num="Nat")
    C = {
        "params[general.Param.AREA.value.name]": f'(params "{area_name}")',
        "params[column]": "(params column)",
        "general.Param": "paramAggregator",
        "param.value.name": "param.1",
        "param.value.aggregator": "param.2",
        "aggregator(values=column_values, weights=area_values)": "(agg aggregator column_values area_values)",
        "general.fallback_aggregation(values=column_values)": "(fallback column_values)",
        "dict()": "[]",
    }
    T = {"params[general.Param.AREA.value.name]": "Cell", "params[column]": "Cell", "general.Param": "List (String × String)", "param.value.name": "String",
         "param.value.aggregator": "String", "aggregator": "String", "column_values": "List Cell", "area_values": "List Cell", "aggregated": "R",
         "aggregator(values=column_values, weights=area_values)": "Option R", "general.fallback_aggregation(values=column_values)": "R",
         "aggregated_values": "AList String R", "default_aggregator": "String", "column": "String", "chosen": "List (String → Cell)", "params": "String → Cell"}
    out += "\n" + translate_function(
        S[SUBS], "aggregate_chosen", "aggregate_chosen",
        {"chosen": "List (String → Cell)", "columns": "List String", "default_aggregator": "String"}, "AList String R", C, types=T,
        extra_params=[("{Cell}", "Type"), ("{R}", "Type"), ("agg", "String → List Cell → List Cell → Option R"), ("fallback", "List Cell → R")],
        slice_from="area_values =", default_num="Nat")
    # the step between subsample_networks and the grouping: failed samples (None) and non-dict results are discarded, nothing else
    out += "\n" + translate_function(
        S[SUBS], "gather_subsample_descriptions", "gather_subsample_descriptions",
        {"subsample_results": "List D"}, "List D",
        {"random_sample_description is None": "(is_none random_sample_description)", "not isinstance(random_sample_description, dict)": "(!(is_dict random_sample_description))"},
        types={"random_sample_description is None": "Bool", "not isinstance(random_sample_description, dict)": "Bool", "descriptions": "List D", "n_results": "Nat", "n_actual_results": "Nat"},
        extra_params=[("{D}", "Type"), ("is_none", "D → Bool"), ("is_dict", "D → Bool")], default_num="Nat")
    return out


def _class_attr(cls, name):
    for st in cls.body:
        if isinstance(st, ast.Assign) and len(st.targets) == 1 and isinstance(st.targets[0], ast.Name) and st.targets[0].id == name:
            return st.value
        if isinstance(st, ast.AnnAssign) and isinstance(st.target, ast.Name) and st.target.id == name:
            return st.value
    return None


def b_validator_table(S):
    tree = ast.parse(S[TVALS])
    classes = {n.name: n for n in tree.body if isinstance(n, ast.ClassDef)}
    tuples = {}
    for st in tree.body:
        if isinstance(st, ast.Assign) and isinstance(st.targets[0], ast.Name) and st.targets[0].id in (
            "MINOR_VALIDATORS", "MAJOR_VALIDATORS", "ALL_VALIDATORS", "MAJOR_ERRORS", "VALIDATION_REQUIRES_NODES"):
            tuples[st.targets[0].id] = st.value

    def names_of(node):
        if isinstance(node, ast.Tuple):
            return [ast.unparse(e) for e in node.elts]
        if isinstance(node, ast.BinOp) and isinstance(node.op, ast.Add):
            return names_of(node.left) + names_of(node.right)
        if isinstance(node, ast.Name) and node.id in tuples:
            return names_of(tuples[node.id])
        raise Untranslatable(f"validator tuple shape: {ast.unparse(node)}")

    def info(cname):
        c = classes.get(cname)
        if c is None:
            raise Untranslatable(f"validator class {cname} not found")
        base = classes.get("BaseValidator")
        err = _class_attr(c, "ERROR") or _class_attr(base, "ERROR")
        lso = _class_attr(c, "LINESTRING_ONLY")
        if lso is None:
            lso = _class_attr(base, "LINESTRING_ONLY")
        dyn = any(isinstance(n, ast.Assign) and any(ast.unparse(t) == "cls.ERROR" for t in n.targets) for n in ast.walk(c))
        if not isinstance(err, ast.Constant) or not isinstance(lso, ast.Constant):
            raise Untranslatable(f"{cname}: ERROR / LINESTRING_ONLY not literal")
        return cname, err.value, bool(lso.value), dyn

    def lean_list(nm, cnames):
        rows = [info(c) for c in cnames]
        return f"def {nm} : List (String × String × Bool × Bool) := [\n  " + ",\n  ".join(
            f'("{n}", "{e}", {str(l).lower()}, {str(d).lower()})' for n, e, l, d in rows) + "]\n"

    out = "/-- (class name, ERROR, LINESTRING_ONLY, rewrites its ERROR at run time) in execution order -/\n"
    out += lean_list("all_validators", names_of(tuples["ALL_VALIDATORS"]))
    out += lean_list("major_validators", names_of(tuples["MAJOR_VALIDATORS"]))
    me = []
    for e in tuples["MAJOR_ERRORS"].elts:
        txt = ast.unparse(e)
        if not txt.endswith(".ERROR"):
            raise Untranslatable("MAJOR_ERRORS shape")
        me.append(info(txt[:-6])[1])
    out += "def major_errors : List String := [" + ", ".join(f'"{x}"' for x in me) + "]\n"
    out += "def requires_nodes : List String := [" + ", ".join(f'"{x}"' for x in names_of(tuples["VALIDATION_REQUIRES_NODES"])) + "]\n"
    # strings the dynamic validator can write
    ul = classes["UnderlappingSnapValidator"]
    written = []
    for n in ast.walk(ul):
        if isinstance(n, ast.Assign) and any(ast.unparse(t) == "cls.ERROR" for t in n.targets):
            v = ast.unparse(n.value)
            if v.startswith("cls._"):
                c = _class_attr(ul, v[4:])
                written.append(c.value)
            elif v.endswith(".ERROR"):
                written.append(info(v[:-6])[1])
            else:
                raise Untranslatable(f"cls.ERROR = {v}")
    out += "def underlap_written : List String := [" + ", ".join(f'"{x}"' for x in written) + "]\n"
    # the empty-target-area exit of run_validation writes EmptyTargetAreaValidator.ERROR into every row (shape-checked)
    out += f'def empty_area_error : String := "{info("EmptyTargetAreaValidator")[1]}"\n'
    rv = find_func(ast.parse(S[TVAL]), "Validation.run_validation")
    ifs = [n for n in ast.walk(rv) if isinstance(n, ast.If) and "is_empty_area" in ast.unparse(n.test)]
    if len(ifs) != 1 or ast.unparse(ifs[0].test) != "not allow_empty_area and is_empty_area(area=self.area, traces=self.traces)":
        raise Untranslatable("empty-area exit of run_validation not found")
    body = ifs[0].body
    asg = [st for st in body if isinstance(st, ast.Assign)]
    ret = [st for st in body if isinstance(st, ast.Return)]
    ok = (len(ret) == 1 and isinstance(body[-1], ast.Return) and ast.unparse(ret[0].value) == "empty_gdf"
          and any(ast.unparse(a.targets[0]) == "empty_gdf[self.ERROR_COLUMN]"
                  and ast.unparse(a.value) == "[(trace_validators.EmptyTargetAreaValidator.ERROR,)] * empty_gdf.shape[0]" for a in asg)
          and any(ast.unparse(a) .startswith("empty_gdf: gpd.GeoDataFrame = self.traces.copy()") for a in body if isinstance(a, ast.AnnAssign)))
    if not ok:
        raise Untranslatable("empty-area exit does not return a copy carrying the empty-area error in every row")
    out += "/-- the exit returns `self.traces.copy()` with `(EmptyTargetAreaValidator.ERROR,)` in every row (shape-checked) -/\ndef empty_area_exit_writes_error : Bool := true\n"
    return out


def b_snap_insert(S):
    """`is_endpoint_close_to_boundary` and `snap_trace_to_another` (the second snapping stage for one trace): loops regenerated;
    distances, incidence and the vertex insertion are parameters"""
    out = translate_function(
        S[BAN], "is_endpoint_close_to_boundary", "is_endpoint_close_to_boundary",
        {"endpoint": "P", "areas": "List A", "snap_threshold": "Rat"}, "Bool",
        {"endpoint.distance(area.boundary)": "(bdist endpoint area)"}, types={"endpoint.distance(area.boundary)": "Rat"},
        extra_params=[("{P}", "Type"), ("{A}", "Type"), ("bdist", "P → A → Rat")], default_num="Rat")
    C = {"ep.distance(another)": "(dist ep another)", "ep.intersects(another)": "(on ep another)",
         "insert_point_to_linestring(another, endpoint, snap_threshold=snap_threshold)": "(insert another endpoint snap_threshold)"}
    T = {"ep.distance(another)": "Rat", "ep.intersects(another)": "Bool", "endpoints": "List P",
         "insert_point_to_linestring(another, endpoint, snap_threshold=snap_threshold)": "L"}
    out += "\n" + translate_function(
        S[BAN], "snap_trace_to_another", "snap_trace_to_another",
        {"trace_endpoints": "List P", "another": "L", "snap_threshold": "Rat"}, "L × Bool", C, types=T,
        extra_params=[("{P}", "Type"), ("{L}", "Type"), ("dist", "P → L → Rat"), ("on", "P → L → Bool"), ("insert", "L → P → Rat → L")], default_num="Rat")
    return out

def b_insert_point(S):
    """`determine_insert_approach` and `insert_point_to_linestring` (the vertex insertion both snapping stages end in): the
    coincidence guard, the distance table and its sort, the closest segment (first minimum), the restriction of the nearest vertex
    to the ends of the closest segment, the insert / replace decision, `pop` / `insert` on the coordinate list. Point distances,
    point-to-segment distances, coincidence and the angle comparison of the (overwritten) middle branch are parameters; a
    distance is never NaN in the model."""
    src0 = S[BAN]
    TPD = "List (Nat × P × Rat)"
    C1 = {
        "nearest_point.distance(point)": "(pdist nearest_point point)",
        "nearest_point.wkt == point.wkt": "(same nearest_point point)",
        "np.isnan(nearest_point_distance_to_point)": "false",
        "[(vals, angle_to_point(point=point, nearest_point=nearest_point, comparison_point=vals[1])) for vals in trace_point_dists if vals[0] in (nearest_point_idx - 1, nearest_point_idx + 1)]":
            "(List.map (fun vals => (vals, angle point nearest_point vals.2.1)) (List.filter (fun vals => List.elem vals.1 [nearest_point_idx - 1, nearest_point_idx + 1]) trace_point_dists))",
        "sorted(points_on_either_side, key=lambda vals: vals[1])": "(pySortedBy (fun vals => vals.2) points_on_either_side)",
        "points_on_either_side[0][0][0]": "((List.headD points_on_either_side ((0, point, 0), 0)).1.1)",
        "max((vals[0] for vals in trace_point_dists))": "(List.foldl max 0 (List.map (fun vals => vals.1) trace_point_dists))",
    }
    PES = "List ((Nat × P × Rat) × Rat)"
    T1 = {"nearest_point.distance(point)": "Rat", "nearest_point_distance_to_point": "Rat", "nearest_point.wkt == point.wkt": "Bool",
          "np.isnan(nearest_point_distance_to_point)": "Bool", "points_on_either_side": PES, "vals": "Nat × P × Rat",
          "sorted(points_on_either_side, key=lambda vals: vals[1])": PES, "points_on_either_side[0][0][0]": "Nat", "smallest_angle_idx": "Nat",
          "max((vals[0] for vals in trace_point_dists))": "Nat", "idx": "Nat", "insert": "Bool",
          "[(vals, angle_to_point(point=point, nearest_point=nearest_point, comparison_point=vals[1])) for vals in trace_point_dists if vals[0] in (nearest_point_idx - 1, nearest_point_idx + 1)]": PES}
    out = translate_function(
        src0, "determine_insert_approach", "determine_insert_approach",
        {"nearest_point_idx": "Nat", "trace_point_dists": TPD, "snap_threshold": "Rat", "point": "P", "nearest_point": "P"}, "Nat × Bool", C1, types=T1,
        extra_params=[("{P}", "Type"), ("pdist", "P → P → Rat"), ("same", "P → P → Bool"), ("angle", "P → P → P → Rat")],
        default_num="Nat", join="tuple", nat_sub=True)
    # the tail of insert_point_to_linestring: one insertion call whatever the dimension of the point (2-D model)
    src = standalone(src0, "insert_point_to_linestring", [
        (r"\(\s*t_coords\.insert\(idx, \(point\.x, point\.y\)\)\s*if not point\.has_z\s*else t_coords\.insert\(idx, \(point\.x, point\.y, point\.z\)\)\s*\)", "t_coords.insert(idx, point)"),
    ])
    if src.count("t_coords.insert(idx, point)") != 1:
        raise Untranslatable("insert_point_to_linestring: the conditional insertion statement changed")
    C2 = {
        "list(trace.coords)": "coords",
        "trace": "coords",
        "point.intersects(Point(xy))": "(same point xy)",
        "[Point(c) for c in list(trace.coords)]": "coords",
        "trace_point.distance(point)": "(pdist trace_point point)",
        "sorted(trace_point_dists, key=lambda vals: vals[2])": "(pySortedBy (fun vals => vals.2.2) trace_point_dists)",
        "trace_point_dists[0][1]": "(List.headD trace_point_dists (0, point, 0)).2.1",
        "trace_point_dists[0][0]": "(List.headD trace_point_dists (0, point, 0)).1",
        "segment_point_dists[0][1]": "(List.headD segment_point_dists (0, point, 0)).2.1",
        "segment_point_dists[0][0]": "(List.headD segment_point_dists (0, point, 0)).1",
        "LineString([coord_points[i], coord_points[i + 1]]).distance(point)": "(sdist (List.getD coord_points i point) (List.getD coord_points (i + 1) point) point)",
        "segment_dists.index(min(segment_dists))": "(pyIndexOfMin segment_dists)",
        "determine_insert_approach(nearest_point_idx, trace_point_dists, snap_threshold, point, nearest_point)":
            "(determine_insert_approach pdist same angle nearest_point_idx trace_point_dists snap_threshold point nearest_point)",
        "LineString(t_coords)": "t_coords",
        "trace.has_z": "false",
        "point.has_z": "false",
        "new_trace.is_simple": "true",
    }
    T2 = {"list(trace.coords)": "List P", "trace": "List P", "point.intersects(Point(xy))": "Bool", "[Point(c) for c in list(trace.coords)]": "List P",
          "trace_point.distance(point)": "Rat", "trace_point_dists": TPD, "sorted(trace_point_dists, key=lambda vals: vals[2])": TPD, "vals": "Nat × P × Rat",
          "trace_point_dists[0][1]": "P", "trace_point_dists[0][0]": "Nat", "segment_point_dists[0][1]": "P", "segment_point_dists[0][0]": "Nat",
          "nearest_point": "P", "nearest_point_idx": "Nat", "coord_points": "List P", "segment_dists": "List Rat", "segment_point_dists": TPD,
          "LineString([coord_points[i], coord_points[i + 1]]).distance(point)": "Rat", "segment_dists.index(min(segment_dists))": "Nat",
          "closest_segment_idx": "Nat", "idx": "Nat", "insert": "Bool", "t_coords": "List P", "new_trace": "List P", "LineString(t_coords)": "List P",
          "determine_insert_approach(nearest_point_idx, trace_point_dists, snap_threshold, point, nearest_point)": "Nat × Bool",
          "trace.has_z": "Bool", "point.has_z": "Bool", "new_trace.is_simple": "Bool", "xy": "P", "trace_point": "P"}
    out += "\n" + translate_function(
        src, "insert_point_to_linestring", "insert_point_to_linestring",
        {"coords": "List P", "point": "P", "snap_threshold": "Rat"}, "List P", C2, types=T2,
        extra_params=[("{P}", "Type"), ("pdist", "P → P → Rat"), ("same", "P → P → Bool"), ("angle", "P → P → P → Rat"), ("sdist", "P → P → P → Rat")],
        slice_from="if trace.has_z", default_num="Nat", join="tuple", nat_sub=True)
    return out


def b_simple_snap(S):
    """`simple_snap` (first snapping stage for one trace): candidate pre-filter, the replacement dictionary built candidate by
    candidate and end by end (already-snapped skip, vertex within the threshold, overlapping-snap skip, nearest interior vertex,
    ValueError on a second replacement of one end), the rewrite of the coordinates. Geometry is a parameter."""
    src = S[BAN]
    C = {
        "get_trace_endpoints(trace)": "(ends_of trace)",
        "endpoint.distance(candidate)": "(ldist endpoint candidate)",
        "dict()": "[]",
        "get_trace_coord_points(trace_to_snap_to)[1:-1]": "(interior_of trace_to_snap_to)",
        "endpoint.intersects(coord_point)": "(same endpoint coord_point)",
        "coord_point.distance(endpoint)": "(pdist coord_point endpoint)",
        "min(distances)": "(listMin distances)",
        "line_intersection_to_points(first=trace, second=trace_to_snap_to)": "(inter trace trace_to_snap_to)",
        "intersection_point.distance(endpoint)": "(pdist intersection_point endpoint)",
        "sorted(zip(coord_points, distances), key=lambda vals: vals[1])": "(pySortedBy (fun vals => vals.2) (List.zip coord_points distances))",
        "endpoint.wkt": "endpoint",
        "sorted_points[0][0]": "(List.headD sorted_points (endpoint, 0)).1",
        "get_trace_coord_points(trace)": "(coords_of trace)",
        "point.wkt": "point",
        "replace_endpoint[point.wkt]": "((alistGet? replace_endpoint point).getD point)",
        "LineString(trace_coords)": "(mk_line trace_coords)",
    }
    T = {"get_trace_endpoints(trace)": "List P", "trace_endpoints": "List P", "endpoint.distance(candidate)": "Rat", "traces_to_snap_to": "List L",
         "dict()": "AList P P", "replace_endpoint": "AList P P", "get_trace_coord_points(trace_to_snap_to)[1:-1]": "List P", "coord_points": "List P",
         "endpoint.intersects(coord_point)": "Bool", "coord_point.distance(endpoint)": "Rat", "distances": "List Rat", "min(distances)": "Rat",
         "line_intersection_to_points(first=trace, second=trace_to_snap_to)": "List P", "intersection_points": "List P",
         "intersection_point.distance(endpoint)": "Rat", "sorted(zip(coord_points, distances), key=lambda vals: vals[1])": "List (P × Rat)",
         "sorted_points": "List (P × Rat)", "endpoint.wkt": "P", "sorted_points[0][0]": "P", "get_trace_coord_points(trace)": "List P", "trace_coords": "List P",
         "point.wkt": "P", "replace_endpoint[point.wkt]": "P", "LineString(trace_coords)": "L", "modified": "L", "endpoint": "P", "point": "P", "candidate": "L",
         "trace_to_snap_to": "L", "coord_point": "P", "intersection_point": "P"}
    return translate_function(
        src, "simple_snap", "simple_snap", {"trace": "L", "trace_candidates": "List L", "snap_threshold": "Rat"}, "L × Bool", C, types=T, raises=True,
        extra_params=[("{L}", "Type"), ("{P}", "Type"), ("[BEq P]", ""), ("ends_of", "L → List P"), ("ldist", "P → L → Rat"), ("interior_of", "L → List P"), ("same", "P → P → Bool"),
                      ("pdist", "P → P → Rat"), ("inter", "L → L → List P"), ("coords_of", "L → List P"), ("mk_line", "List P → L")],
        slice_from="trace_endpoints = get_trace_endpoints", default_num="Rat", join="tuple")


def b_snap_stage(S):
    """`resolve_trace_candidates`, `snap_trace_simple`, `snap_others_to_trace` and `snap_traces` (one whole snapping pass): the candidate window through
    the spatial index (a parameter), `list.remove`'s ValueError, the trace-among-its-candidates ValueError, the boundary filter, both comprehensions of
    `snap_traces` as `mapM` (evaluated in order, first exception propagates), the change flag. Callees regenerated elsewhere (`simple_snap`,
    `is_endpoint_close_to_boundary`, `snap_trace_to_another`) are called, geometry is a parameter."""
    src = S[BAN]
    out = []
    # resolve_trace_candidates: extended bounds -> index query (parameter), own index removed (ValueError of list.remove when absent), geometries picked
    C = {
        "geom_bounds(trace)": "(bounds_of trace)",
        "list(traces_spatial_index.intersection(extended_bounds))": "(index_query extended_bounds)",
        "[i.item() for i in trace_candidate_idxs_raw if isinstance(i.item(), int)]": "trace_candidate_idxs_raw",
        "traces[i]": "(List.getD traces i trace)",
    }
    T = {"geom_bounds(trace)": "Rat × Rat × Rat × Rat", "minx": "Rat", "miny": "Rat", "maxx": "Rat", "maxy": "Rat", "extended_bounds": "Rat × Rat × Rat × Rat",
         "list(traces_spatial_index.intersection(extended_bounds))": "List Nat", "trace_candidate_idxs_raw": "List Nat", "trace_candidate_idxs": "List Nat",
         "[i.item() for i in trace_candidate_idxs_raw if isinstance(i.item(), int)]": "List Nat", "traces[i]": "L", "trace_candidates": "List L"}
    out.append(translate_function(
        src, "resolve_trace_candidates", "resolve_trace_candidates", {"trace": "L", "idx": "Nat", "traces": "List L", "snap_threshold": "Rat"}, "List L", C, types=T, raises=True,
        extra_params=[("{L}", "Type"), ("bounds_of", "L → Rat × Rat × Rat × Rat"), ("index_query", "Rat × Rat × Rat × Rat → List Nat")],
        slice_from="minx, miny, maxx, maxy = geom_bounds(trace)", default_num="Rat", join="tuple", strict_remove=True))
    # snap_trace_simple
    kw = "resolve_trace_candidates(trace=trace, idx=idx, traces=traces, traces_spatial_index=traces_spatial_index, snap_threshold=snap_threshold)"
    C = {kw: "(resolve_trace_candidates bounds_of index_query trace idx traces snap_threshold)",
         "simple_snap(trace, trace_candidates, snap_threshold)": "(simple_snap_ trace trace_candidates snap_threshold)"}
    T = {kw: "Except (List L)", "trace_candidates": "List L", "simple_snap(trace, trace_candidates, snap_threshold)": "Except (L × Bool)", "was_simple_snapped": "Bool"}
    out.append(translate_function(
        src, "snap_trace_simple", "snap_trace_simple", {"idx": "Nat", "trace": "L", "snap_threshold": "Rat", "traces": "List L"}, "L × Bool", C, types=T, raises=True,
        extra_params=[("{L}", "Type"), ("bounds_of", "L → Rat × Rat × Rat × Rat"), ("index_query", "Rat × Rat × Rat × Rat → List Nat"),
                      ("simple_snap_", "L → List L → Rat → Except String (L × Bool)")],
        default_num="Rat", join="tuple"))
    # snap_others_to_trace
    C = {kw: "(resolve_trace_candidates bounds_of index_query trace idx traces snap_threshold)",
         "trace in list(trace_candidates)": "(List.elem trace trace_candidates)",
         "list(chain(*[list(get_trace_endpoints(trace_candidate)) for trace_candidate in trace_candidates]))": "(List.flatMap ends_of trace_candidates)",
         "is_endpoint_close_to_boundary(ep, areas, snap_threshold=snap_threshold)": "(is_endpoint_close_to_boundary bdist ep (areas.getD []) snap_threshold)",
         "snap_trace_to_another(trace_endpoints=endpoints, another=trace, snap_threshold=snap_threshold)": "(snap_trace_to_another dist on insert endpoints trace snap_threshold)"}
    T = {kw: "Except (List L)", "trace_candidates": "List L", "trace in list(trace_candidates)": "Bool",
         "list(chain(*[list(get_trace_endpoints(trace_candidate)) for trace_candidate in trace_candidates]))": "List P", "endpoints": "List P", "ep": "P",
         "is_endpoint_close_to_boundary(ep, areas, snap_threshold=snap_threshold)": "Bool",
         "snap_trace_to_another(trace_endpoints=endpoints, another=trace, snap_threshold=snap_threshold)": "L × Bool", "was_snapped": "Bool", "error": "String"}
    out.append(translate_function(
        src, "snap_others_to_trace", "snap_others_to_trace", {"idx": "Nat", "trace": "L", "snap_threshold": "Rat", "traces": "List L", "areas": "Option (List A)"}, "L × Bool", C, types=T, raises=True,
        extra_params=[("{L}", "Type"), ("{P}", "Type"), ("{A}", "Type"), ("[BEq L]", ""), ("bounds_of", "L → Rat × Rat × Rat × Rat"), ("index_query", "Rat × Rat × Rat × Rat → List Nat"),
                      ("ends_of", "L → List P"), ("bdist", "P → A → Rat"), ("dist", "P → L → Rat"), ("on", "P → L → Bool"), ("insert", "L → P → Rat → L")],
        slice_from="trace_candidates = resolve_trace_candidates", default_num="Rat", join="tuple"))
    # snap_traces: both comprehensions (evaluated in order, the first exception propagates) are mapped to mapM over the enumerated list
    fn = find_func(ast.parse(src), "snap_traces")
    zips = [n for n in ast.walk(fn) if isinstance(n, ast.Call) and ast.unparse(n.func) == "zip"]
    if len(zips) != 2 or any(len(z.args) != 1 or not isinstance(z.args[0], ast.Starred) or not isinstance(z.args[0].value, ast.ListComp) for z in zips):
        raise Untranslatable("snap_traces: expected two zip(*[...]) over list comprehensions")
    zips.sort(key=lambda z: z.lineno)
    want = [("snap_trace_simple", ["idx", "trace", "snap_threshold", "traces", "traces_spatial_index"], {"final_allowed_loop": "final_allowed_loop"}, "enumerate(traces)"),
            ("snap_others_to_trace", [], {"idx": "idx", "trace": "trace", "snap_threshold": "snap_threshold", "traces_spatial_index": "traces_spatial_index", "areas": "areas",
                                          "traces": "simply_snapped_traces_list", "final_allowed_loop": "final_allowed_loop"}, "enumerate(simply_snapped_traces)")]
    for z, (callee, pos, kws, it) in zip(zips, want):
        lc = z.args[0].value
        call = lc.elt
        g = lc.generators[0]
        if not (isinstance(call, ast.Call) and ast.unparse(call.func) == callee and [ast.unparse(a) for a in call.args] == pos
                and {k.arg: ast.unparse(k.value) for k in call.keywords} == kws and len(lc.generators) == 1 and not g.ifs
                and ast.unparse(g.target) == "(idx, trace)" and ast.unparse(g.iter) == it):
            raise Untranslatable(f"snap_traces: the comprehension calling {callee} changed")
    k1, k2 = ast.unparse(zips[0]), ast.unparse(zips[1])
    C = {"gpd.GeoSeries(traces).sindex": "()",
         k1: "(Except.map List.unzip (List.mapM (fun (x : L × Nat) => snap_trace_simple bounds_of (index_of traces) simple_snap_ x.2 x.1 snap_threshold traces) (List.zipIdx traces)))",
         "list(simply_snapped_traces)": "simply_snapped_traces",
         k2: "(Except.map List.unzip (List.mapM (fun (x : L × Nat) => snap_others_to_trace bounds_of (index_of traces) ends_of bdist dist on insert x.2 x.1 snap_threshold simply_snapped_traces_list areas) (List.zipIdx simply_snapped_traces)))",
         "list(snapped_traces)": "snapped_traces",
         "any(changes + simple_changes)": "(List.any (changes ++ simple_changes) id)",
         "([], False)": "([], false)"}
    T = {"gpd.GeoSeries(traces).sindex": "Unit", "traces_spatial_index": "Unit", k1: "Except (List L × List Bool)", k2: "Except (List L × List Bool)",
         "list(simply_snapped_traces)": "List L", "simply_snapped_traces_list": "List L", "list(snapped_traces)": "List L", "any(changes + simple_changes)": "Bool",
         "([], False)": "List L × Bool"}
    out.append(translate_function(
        src, "snap_traces", "snap_traces", {"traces": "List L", "snap_threshold": "Rat", "areas": "Option (List A)"}, "List L × Bool", C, types=T, raises=True,
        extra_params=[("{L}", "Type"), ("{P}", "Type"), ("{A}", "Type"), ("[BEq L]", ""), ("bounds_of", "L → Rat × Rat × Rat × Rat"),
                      ("index_of", "List L → Rat × Rat × Rat × Rat → List Nat"), ("simple_snap_", "L → List L → Rat → Except String (L × Bool)"),
                      ("ends_of", "L → List P"), ("bdist", "P → A → Rat"), ("dist", "P → L → Rat"), ("on", "P → L → Bool"), ("insert", "L → P → Rat → L")],
        default_num="Rat", join="tuple"))
    return "\n".join(out)


def b_branches_and_nodes(S):
    """the whole orchestration of `branches_and_nodes` after the z-coordinate clean-up: duplicate filter, LineString filter, crop unless
    already clipped (BEFORE snapping), the snapping stage (first pass + `while` loop with `report_snapping_loop`), the trace length
    filter, noding with its type dispatch and TypeError, the branch length filter, node table, branch labels. Every stage is a
    parameter (the stages themselves are regenerated by other items); what is regenerated here is their ORDER and plumbing."""
    src = S[BAN]
    rfn = find_func(ast.parse(src), "report_snapping_loop")
    cond = [n for n in ast.walk(rfn) if isinstance(n, ast.If) and any(isinstance(b, ast.Raise) for b in n.body)]
    if len(cond) != 1 or ast.unparse(cond[0].test) != "loops > allowed_loops" or "RecursionError" not in ast.unparse(cond[0].body[0]):
        raise Untranslatable("report_snapping_loop does not raise RecursionError iff loops > allowed_loops")
    C = {
        "filter_non_unique_traces(traces_geosrs, snap_threshold=snap_threshold)": "(dedupe traces_geosrs)",
        "areas.geometry": "areas",
        "[[poly] if isinstance(poly, Polygon) else list(poly.geoms) for poly in areas_geosrs.geometry.values if isinstance(poly, (Polygon, MultiPolygon))]": "(List.map polys_of areas_geosrs)",
        "list(chain(*areas_lists_of_polygons))": "(List.flatMap id areas_lists_of_polygons)",
        "[trace for trace in traces_geosrs.geometry.values if isinstance(trace, LineString)]": "(List.filter is_ls traces_geosrs)",
        "[trace for trace in crop_to_target_areas(gpd.GeoSeries(traces_list, crs=traces.crs), areas_geosrs, keep_column_data=False).geometry.values if isinstance(trace, LineString)]":
            "(List.filter is_ls (crop traces_list areas_geosrs))",
        "snap_traces(traces_list, snap_threshold, areas=areas_list)": "(snap_ traces_list snap_threshold areas_list)",
        "snap_traces(traces_list, snap_threshold, final_allowed_loop=loops == allowed_loops, areas=areas_list)": "(snap_ traces_list snap_threshold areas_list)",
        "gpd.GeoSeries(traces_list, crs=traces.crs)": "traces_list",
        "traces_geosrs.loc[traces_geosrs.geometry.length > snap_threshold * 2.01]": "(List.filter (fun tr => decide (len tr > snap_threshold * (201 / 100))) traces_geosrs)",
        "traces_geosrs.union_all()": "(union_all traces_geosrs)",
        "isinstance(unary_union_result, MultiLineString)": "(u_is_multi unary_union_result)",
        "list(unary_union_result.geoms)": "(u_parts unary_union_result)",
        "isinstance(unary_union_result, LineString)": "(u_is_line unary_union_result)",
        "[unary_union_result]": "(u_parts unary_union_result)",
        "gpd.GeoSeries([b for b in branches_all if b.length > snap_threshold * 1.01], crs=traces_geosrs.crs)": "(List.filter (fun b => decide (len b > snap_threshold * (101 / 100))) branches_all)",
        "node_identities_from_branches(branches=branches, areas=areas_geosrs, snap_threshold=snap_threshold)": "(node_table branches areas_geosrs snap_threshold)",
        "gpd.GeoSeries(nodes)": "nodes",
        "get_branch_identities(branches, nodes_geosrs, node_identities, snap_threshold)": "(branch_labels branches nodes_geosrs node_identities snap_threshold)",
        "gpd.GeoDataFrame({GEOMETRY_COLUMN: nodes_geosrs, CLASS_COLUMN: node_identities}, crs=traces.crs)": "(List.zip nodes_geosrs node_identities)",
        "gpd.GeoDataFrame({GEOMETRY_COLUMN: branches, CONNECTION_COLUMN: branch_identities}, crs=traces.crs)": "(List.zip branches branch_identities)",
    }
    T = {k: None for k in C}
    T = {
        "filter_non_unique_traces(traces_geosrs, snap_threshold=snap_threshold)": "List G", "traces_geosrs": "List G", "areas.geometry": "List A", "areas_geosrs": "List A",
        "[[poly] if isinstance(poly, Polygon) else list(poly.geoms) for poly in areas_geosrs.geometry.values if isinstance(poly, (Polygon, MultiPolygon))]": "List (List Pg)",
        "areas_lists_of_polygons": "List (List Pg)", "list(chain(*areas_lists_of_polygons))": "List Pg", "areas_list": "List Pg",
        "[trace for trace in traces_geosrs.geometry.values if isinstance(trace, LineString)]": "List G", "traces_list": "List G",
        "[trace for trace in crop_to_target_areas(gpd.GeoSeries(traces_list, crs=traces.crs), areas_geosrs, keep_column_data=False).geometry.values if isinstance(trace, LineString)]": "List G",
        "snap_traces(traces_list, snap_threshold, areas=areas_list)": "Except (List G × Bool)",
        "snap_traces(traces_list, snap_threshold, final_allowed_loop=loops == allowed_loops, areas=areas_list)": "Except (List G × Bool)",
        "loops": "Nat", "any_changes_applied": "Bool", "gpd.GeoSeries(traces_list, crs=traces.crs)": "List G",
        "traces_geosrs.loc[traces_geosrs.geometry.length > snap_threshold * 2.01]": "List G", "traces_geosrs.union_all()": "U", "unary_union_result": "U",
        "isinstance(unary_union_result, MultiLineString)": "Bool", "list(unary_union_result.geoms)": "List G", "isinstance(unary_union_result, LineString)": "Bool",
        "[unary_union_result]": "List G", "branches_all": "List G",
        "gpd.GeoSeries([b for b in branches_all if b.length > snap_threshold * 1.01], crs=traces_geosrs.crs)": "List G", "branches": "List G",
        "node_identities_from_branches(branches=branches, areas=areas_geosrs, snap_threshold=snap_threshold)": "List N × List String", "nodes": "List N", "node_identities": "List String",
        "gpd.GeoSeries(nodes)": "List N", "nodes_geosrs": "List N",
        "get_branch_identities(branches, nodes_geosrs, node_identities, snap_threshold)": "List String", "branch_identities": "List String",
        "gpd.GeoDataFrame({GEOMETRY_COLUMN: nodes_geosrs, CLASS_COLUMN: node_identities}, crs=traces.crs)": "List (N × String)", "node_gdf": "List (N × String)",
        "gpd.GeoDataFrame({GEOMETRY_COLUMN: branches, CONNECTION_COLUMN: branch_identities}, crs=traces.crs)": "List (G × String)", "branch_gdf": "List (G × String)",
    }
    return translate_function(
        src, "branches_and_nodes", "branches_and_nodes",
        {"traces_geosrs": "List G", "areas": "List A", "snap_threshold": "Rat", "allowed_loops": "Nat", "already_clipped": "Bool", "fuel": "Nat"},
        "List (G × String) × List (N × String)", C, types=T, raises=True,
        extra_params=[("{G}", "Type"), ("{A}", "Type"), ("{Pg}", "Type"), ("{U}", "Type"), ("{N}", "Type"), ("dedupe", "List G → List G"), ("polys_of", "A → List Pg"), ("is_ls", "G → Bool"),
                      ("crop", "List G → List A → List G"), ("snap_", "List G → Rat → List Pg → Except String (List G × Bool)"), ("len", "G → Rat"), ("union_all", "List G → U"),
                      ("u_is_multi", "U → Bool"), ("u_is_line", "U → Bool"), ("u_parts", "U → List G"), ("node_table", "List G → List A → Rat → List N × List String"),
                      ("branch_labels", "List G → List N → List String → Rat → List String")],
        slice_from="traces_geosrs = filter_non_unique_traces", default_num="Rat", join="tuple",
        raisers={"report_snapping_loop(loops, allowed_loops=allowed_loops)": ("(decide (loops > allowed_loops))", "RecursionError")})


def b_validation_utils(S):
    """decision skeletons of fractopo/tval/trace_validation_utils.py: `determine_trace_candidates` (extended window -> index query, own
    position removed with list.remove's ValueError, LineStrings only), `is_underlapping` (split; one piece = underlapping; a piece within
    the error distance of the end = overlapping; else unresolved), `determine_middle_in_triangle`, `split_to_determine_triangle_errors`
    (split failure, more than three pieces, a middle piece inside the triangle window). GEOS operations are parameters."""
    src = S[TVU]
    out = []
    C = {
        "spatial_index is None": "false",
        "geom_bounds(geom)": "(bounds_of geom)",
        "spatial_index_intersection(spatial_index, (min_x - extend_bounds_by, min_y - extend_bounds_by, max_x + extend_bounds_by, max_y + extend_bounds_by))":
            "(index_query ((min_x - extend_bounds_by), (min_y - extend_bounds_by), (max_x + extend_bounds_by), (max_y + extend_bounds_by)))",
        "traces.geometry.iloc[candidate_idxs]": "(List.filterMap (fun i => traces[i]?) candidate_idxs)",
        "candidate_traces.loc[[isinstance(geom, LineString) for geom in candidate_traces.geometry.values]]": "(List.filter is_ls candidate_traces)",
        "gpd.GeoSeries()": "[]",
    }
    T = {"spatial_index is None": "Bool", "geom_bounds(geom)": "Rat × Rat × Rat × Rat", "min_x": "Rat", "min_y": "Rat", "max_x": "Rat", "max_y": "Rat",
         "spatial_index_intersection(spatial_index, (min_x - extend_bounds_by, min_y - extend_bounds_by, max_x + extend_bounds_by, max_y + extend_bounds_by))": "List Nat",
         "candidate_idxs": "List Nat", "traces.geometry.iloc[candidate_idxs]": "List G", "candidate_traces": "List G",
         "candidate_traces.loc[[isinstance(geom, LineString) for geom in candidate_traces.geometry.values]]": "List G", "gpd.GeoSeries()": "List G"}
    out.append(translate_function(
        src, "determine_trace_candidates", "determine_trace_candidates", {"geom": "G", "idx": "Nat", "traces": "List G", "extend_bounds_by": "Rat"}, "List G", C, types=T, raises=True,
        extra_params=[("{G}", "Type"), ("bounds_of", "G → Rat × Rat × Rat × Rat"), ("index_query", "Rat × Rat × Rat × Rat → List Nat"), ("is_ls", "G → Bool")],
        default_num="Rat", join="tuple", strict_remove=True))
    # is_underlapping: try: split(..) except ValueError: return None
    C = {"list(split(geom, trace).geoms)": "(split_ geom trace)", "segment.distance(endpoint)": "(sdist segment endpoint)",
         "True": "(some true)", "False": "(some false)", "None": "none"}
    T = {"list(split(geom, trace).geoms)": "Option (List S)", "split_results": "List S", "segment.distance(endpoint)": "Rat", "segment": "S",
         "log_prints": "Unit"}
    src_u = standalone(src, "is_underlapping", [(r"log_prints = \{[^}]*\}", "pass")])
    out.append(translate_function(
        src_u, "is_underlapping", "is_underlapping", {"geom": "L", "trace": "L", "endpoint": "P", "snap_threshold": "Rat", "snap_threshold_error_multiplier": "Rat"}, "Option Bool",
        C, types=T, extra_params=[("{L}", "Type"), ("{S}", "Type"), ("{P}", "Type"), ("split_", "L → L → Option (List S)"), ("sdist", "S → P → Rat")], default_num="Rat", join="tuple"))
    # determine_middle_in_triangle: `others = segments.copy(); others.pop(idx)`
    C = {"segments.copy()": "segments", "linestring.distance(other)": "(ssdist linestring other)", "segments[idx]": "linestring"}
    T = {"segments.copy()": "List S", "others": "List S", "linestring.distance(other)": "Rat", "candidates": "List S", "segments[idx]": "S", "other": "S", "linestring": "S"}
    out.append(translate_function(
        src, "determine_middle_in_triangle", "determine_middle_in_triangle", {"segments": "List S", "snap_threshold": "Rat", "snap_threshold_error_multiplier": "Rat"}, "List S",
        C, types=T, extra_params=[("{S}", "Type"), ("ssdist", "S → S → Rat")], slice_from="candidates = []", default_num="Rat", join="tuple"))
    # split_to_determine_triangle_errors
    src_t = standalone(src, "split_to_determine_triangle_errors", [(r"seg_lengths: List\[float\] = ", "seg_lengths = ")])
    kw = "determine_middle_in_triangle(list(segments.geoms), snap_threshold=snap_threshold, snap_threshold_error_multiplier=triangle_error_snap_multiplier)"
    C = {"split(trace, splitter_trace)": "(split_ trace splitter_trace)", "trace.intersection(splitter_trace)": "()",
         "isinstance(trace_intersection, Point)": "(inter_is_point trace splitter_trace)", "segments.geoms": "segments",
         kw: "(determine_middle_in_triangle ssdist segments snap_threshold triangle_error_snap_multiplier)",
         "[seg.length for seg in middle]": "(List.map slen middle)", "[seg.length for seg in segments.geoms]": "(List.map slen segments)"}
    T = {"split(trace, splitter_trace)": "Option (List S)", "segments": "List S", "trace.intersection(splitter_trace)": "Unit", "trace_intersection": "Unit",
         "isinstance(trace_intersection, Point)": "Bool", "segments.geoms": "List S", kw: "List S", "middle": "List S",
         "[seg.length for seg in middle]": "List Rat", "[seg.length for seg in segments.geoms]": "List Rat", "seg_lengths": "List Rat", "seg_length": "Rat"}
    out.append(translate_function(
        src_t, "split_to_determine_triangle_errors", "split_to_determine_triangle_errors",
        {"trace": "L", "splitter_trace": "L", "snap_threshold": "Rat", "triangle_error_snap_multiplier": "Rat"}, "Bool", C, types=T,
        extra_params=[("{L}", "Type"), ("{S}", "Type"), ("split_", "L → L → Option (List S)"), ("inter_is_point", "L → L → Bool"), ("ssdist", "S → S → Rat"), ("slen", "S → Rat")],
        slice_from="try:", default_num="Rat", join="tuple"))
    return "\n".join(out)


def b_stacking(S):
    """`segment_within_buffer` (the alongside flavour of STACKED TRACES), `segmentize_linestring`, `linestring_segment` and `within_bounds`: empty
    neighbour set, overlap shortcut, buffer of radius t·m·b, crop of the neighbours to the buffer, the minimum cropped length, cutting into
    detection-length segments from the start of every cropped part, bounds test, length test (longer than, or `isclose` to, the
    detection length) and containment in the buffer. GEOS operations, `isclose` and lengths are parameters."""
    src = S[TVU]
    out = []
    gsrc = S[GENERAL]
    out.append(translate_function(
        gsrc, "within_bounds", "within_bounds", {"x": "Rat", "y": "Rat", "min_x": "Rat", "min_y": "Rat", "max_x": "Rat", "max_y": "Rat"}, "Bool", {}, types={}, default_num="Rat"))
    C = {"linestring.interpolate(dist).coords[0]": "(interp linestring dist)", "linestring.interpolate(dist + threshold_length).coords[0]": "(interp linestring (dist + threshold_length))"}
    T = {"linestring.interpolate(dist).coords[0]": "Rat × Rat", "linestring.interpolate(dist + threshold_length).coords[0]": "Rat × Rat", "coord_1": "Rat × Rat", "coord_2": "Rat × Rat"}
    out.append(translate_function(
        src, "linestring_segment", "linestring_segment", {"linestring": "L", "dist": "Rat", "threshold_length": "Rat"}, "(Rat × Rat) × (Rat × Rat)", C, types=T,
        extra_params=[("{L}", "Type"), ("interp", "L → Rat → Rat × Rat")], slice_from="coord_1 =", default_num="Rat"))
    C = {"np.arange(0.0, linestring.length, threshold_length)": "(pyArange 0 (slen linestring) threshold_length)",
         "linestring_segment(linestring, dist, threshold_length)": "(linestring_segment interp linestring dist threshold_length)"}
    T = {"np.arange(0.0, linestring.length, threshold_length)": "List Rat", "segments": "List ((Rat × Rat) × (Rat × Rat))", "dist": "Rat",
         "linestring_segment(linestring, dist, threshold_length)": "(Rat × Rat) × (Rat × Rat)"}
    out.append(translate_function(
        src, "segmentize_linestring", "segmentize_linestring", {"linestring": "L", "threshold_length": "Rat"}, "List ((Rat × Rat) × (Rat × Rat))", C, types=T,
        extra_params=[("{L}", "Type"), ("interp", "L → Rat → Rat × Rat"), ("slen", "L → Rat")], slice_from="segments: List", default_num="Rat"))
    wb = "within_bounds(x=start[0], y=start[1], min_x=min_x, min_y=min_y, max_x=max_x, max_y=max_y) and within_bounds(x=end[0], y=end[1], min_x=min_x, min_y=min_y, max_x=max_x, max_y=max_y)"
    C = {
        "multilinestring.is_empty": "(mls_empty multilinestring)",
        "linestring.overlaps(multilinestring)": "(overlaps linestring multilinestring)",
        "isinstance(linestring.intersection(multilinestring), (Point, MultiPoint))": "(inter_is_points linestring multilinestring)",
        "safe_buffer(linestring, snap_threshold * snap_threshold_error_multiplier * stacked_detector_buffer_multiplier)":
            "(buffer_ linestring (snap_threshold * snap_threshold_error_multiplier * stacked_detector_buffer_multiplier))",
        "geom_bounds(buffered_linestring)": "(bounds_of buffered_linestring)",
        "buffered_linestring.intersects(multilinestring)": "(intersects buffered_linestring multilinestring)",
        "buffered_linestring.intersection(multilinestring)": "(crop_ buffered_linestring multilinestring)",
        "cropped_mls.is_empty": "(List.isEmpty cropped_mls)",
        "isinstance(cropped_mls, LineString)": "(decide (List.length cropped_mls = 1))",
        "cropped_mls.length": "(List.sum (List.map slen cropped_mls))",
        "isinstance(cropped_mls, (MultiLineString, LineString))": "(crop_is_lines buffered_linestring multilinestring)",
        "list(cropped_mls.geoms) if isinstance(cropped_mls, MultiLineString) else [cropped_mls]": "cropped_mls",
        "segmentize_linestring(ls, snap_threshold * overlap_detection_multiplier)": "(segmentize_linestring interp slen ls (snap_threshold * overlap_detection_multiplier))",
        wb: "((within_bounds start.1 start.2 min_x min_y max_x max_y) && (within_bounds end_.1 end_.2 min_x min_y max_x max_y))",
        "LineString([start, end])": "(start, end_)",
        "ls.length > detection_length or np.isclose(ls.length, detection_length)": "((decide (seg_len start end_ > detection_length)) || (isclose (seg_len start end_) detection_length))",
        "ls.within(buffered_linestring)": "(seg_within start end_ buffered_linestring)",
    }
    SEG = "(Rat × Rat) × (Rat × Rat)"
    T = {k: "Bool" for k in ["multilinestring.is_empty", "linestring.overlaps(multilinestring)", "isinstance(linestring.intersection(multilinestring), (Point, MultiPoint))",
                             "buffered_linestring.intersects(multilinestring)", "cropped_mls.is_empty", "isinstance(cropped_mls, LineString)",
                             "isinstance(cropped_mls, (MultiLineString, LineString))", wb, "ls.length > detection_length or np.isclose(ls.length, detection_length)",
                             "ls.within(buffered_linestring)"]}
    T.update({"safe_buffer(linestring, snap_threshold * snap_threshold_error_multiplier * stacked_detector_buffer_multiplier)": "B", "buffered_linestring": "B",
              "geom_bounds(buffered_linestring)": "Rat × Rat × Rat × Rat", "min_x": "Rat", "min_y": "Rat", "max_x": "Rat", "max_y": "Rat",
              "buffered_linestring.intersection(multilinestring)": "List L", "cropped_mls": "List L", "cropped_mls.length": "Rat",
              "list(cropped_mls.geoms) if isinstance(cropped_mls, MultiLineString) else [cropped_mls]": "List L", "mls_geoms": "List L", "all_segments": f"List ({SEG})",
              "segmentize_linestring(ls, snap_threshold * overlap_detection_multiplier)": f"List ({SEG})", "LineString([start, end])": SEG, "detection_length": "Rat",
              "start": "Rat × Rat", "end": "Rat × Rat"})
    src_b = standalone(src, "segment_within_buffer", [(r"\n    ls: LineString\n", "\n"), (r"all_segments: List\[Tuple\[Tuple\[float, float\], Tuple\[float, float\]\]\] = \[\]", "all_segments = []"),
                                                        (r"mls_geoms: List\[LineString\] = ", "mls_geoms = "), (r"            ls = LineString\(\[start, end\]\)\n", "")])
    out.append(translate_function(
        src_b, "segment_within_buffer", "segment_within_buffer",
        {"linestring": "L", "multilinestring": "M", "snap_threshold": "Rat", "snap_threshold_error_multiplier": "Rat", "overlap_detection_multiplier": "Rat",
         "stacked_detector_buffer_multiplier": "Rat"}, "Bool", C, types=T,
        extra_params=[("{L}", "Type"), ("{M}", "Type"), ("{B}", "Type"), ("mls_empty", "M → Bool"), ("overlaps", "L → M → Bool"), ("inter_is_points", "L → M → Bool"), ("buffer_", "L → Rat → B"),
                      ("bounds_of", "B → Rat × Rat × Rat × Rat"), ("intersects", "B → M → Bool"), ("crop_", "B → M → List L"), ("crop_is_lines", "B → M → Bool"),
                      ("interp", "L → Rat → Rat × Rat"), ("slen", "L → Rat"), ("seg_len", "Rat × Rat → Rat × Rat → Rat"), ("isclose", "Rat → Rat → Bool"),
                      ("seg_within", "Rat × Rat → Rat × Rat → B → Bool")],
        slice_from="if multilinestring.is_empty", default_num="Rat", join="tuple"))
    return "\n".join(out)


def b_sharp_corners(S):
    """`SharpCornerValidator.validation_method`: two-vertex traces pass; the chord direction must exist; every segment must keep within the average
    threshold of the chord direction and (from the second on) within the previous-segment threshold of its predecessor; undefined
    directions (zero-length segments) fail. Unit vectors and their comparison are parameters."""
    src = standalone(S[TVALS], "SharpCornerValidator.validation_method", [(r"segment_end: Point = ", "segment_end = ")])
    C = {
        "get_trace_coord_points(geom)": "(coords_of geom)",
        "geom_coords[0]": "(List.headD geom_coords dflt)",
        "geom_coords[-1]": "(List.getLastD geom_coords dflt)",
        "geom_coords[idx + 1]": "(List.getD geom_coords (idx + 1) dflt)",
        "geom_coords[idx - 1]": "(List.getD geom_coords (idx - 1) dflt)",
        "geom_coords[idx]": "(List.getD geom_coords idx dflt)",
        "create_unit_vector(geom_coords[0], geom_coords[-1])": "(unit (List.headD geom_coords dflt) (List.getLastD geom_coords dflt))",
        "create_unit_vector(segment_start, segment_end)": "(unit segment_start segment_end)",
        "create_unit_vector(geom_coords[idx - 1], geom_coords[idx])": "(unit (List.getD geom_coords (idx - 1) dflt) (List.getD geom_coords idx dflt))",
        "any(np.isnan(trace_unit_vector))": "(is_nan trace_unit_vector)",
        "any(np.isnan(segment_unit_vector))": "(is_nan segment_unit_vector)",
        "any(np.isnan(prev_segment_unit_vector))": "(is_nan prev_segment_unit_vector)",
        "compare_unit_vector_orientation(trace_unit_vector, segment_unit_vector, sharp_avg_threshold)": "(aligned trace_unit_vector segment_unit_vector sharp_avg_threshold)",
        "compare_unit_vector_orientation(segment_unit_vector, prev_segment_unit_vector, sharp_prev_seg_threshold)": "(aligned segment_unit_vector prev_segment_unit_vector sharp_prev_seg_threshold)",
    }
    T = {"get_trace_coord_points(geom)": "List P", "geom_coords": "List P", "geom_coords[0]": "P", "geom_coords[-1]": "P", "geom_coords[idx + 1]": "P", "geom_coords[idx - 1]": "P",
         "geom_coords[idx]": "P", "segment_end": "P", "segment_start": "P",
         "create_unit_vector(geom_coords[0], geom_coords[-1])": "V", "trace_unit_vector": "V", "create_unit_vector(segment_start, segment_end)": "V", "segment_unit_vector": "V",
         "create_unit_vector(geom_coords[idx - 1], geom_coords[idx])": "V", "prev_segment_unit_vector": "V",
         "any(np.isnan(trace_unit_vector))": "Bool", "any(np.isnan(segment_unit_vector))": "Bool", "any(np.isnan(prev_segment_unit_vector))": "Bool",
         "compare_unit_vector_orientation(trace_unit_vector, segment_unit_vector, sharp_avg_threshold)": "Bool",
         "compare_unit_vector_orientation(segment_unit_vector, prev_segment_unit_vector, sharp_prev_seg_threshold)": "Bool"}
    return translate_function(
        src, "validation_method", "sharp_corner_validation", {"geom": "L", "sharp_avg_threshold": "Rat", "sharp_prev_seg_threshold": "Rat"}, "Bool", C, types=T,
        extra_params=[("{L}", "Type"), ("{P}", "Type"), ("{V}", "Type"), ("coords_of", "L → List P"), ("dflt", "P"), ("unit", "P → P → V"), ("is_nan", "V → Bool"), ("aligned", "V → V → Rat → Bool")],
        slice_from="geom_coords = get_trace_coord_points", default_num="Nat", join="tuple", nat_sub=True)


def b_crop_helpers(S):
    """`dissolve_multi_part_traces` (GeoDataFrame branch: rows with single-part geometry first, then every part of every multi-part row with
    that row's data; ValueError for a multi-part row without parts, TypeError when something that is not a LineString is left) and
    `is_empty_area` (an area counts only through the traces its index window reports). Rows are (data, geometry) pairs."""
    src0 = S[GENERAL]
    import textwrap

    defs = [n for n in ast.parse(src0).body if isinstance(n, ast.FunctionDef) and n.name == "dissolve_multi_part_traces"]
    if len(defs) != 3:
        raise Untranslatable("dissolve_multi_part_traces: expected two typing overloads and one implementation")
    impl = textwrap.dedent("\n".join(src0.split("\n")[defs[-1].lineno - 1: defs[-1].end_lineno]))
    src = standalone(impl, "dissolve_multi_part_traces", [
        (r"if isinstance\(traces, gpd\.GeoSeries\):\n        return gpd\.GeoSeries\(\n            list\(ls_traces\.geometry\.values\) \+ list\(chain\(\*as_linestrings_list\)\),\n            crs=traces\.crs,\n        \)\n", ""),
        (r"new_row = row\.copy\(\)\n            new_row\[GEOMETRY_COLUMN\] = new_geom\n", "new_row = (row[0], new_geom)\n"),
        (r"for \(_, row\), as_linestrings in zip\(mls_traces\.iterrows\(\), as_linestrings_list\):", "for row, as_linestrings in zip(mls_traces, as_linestrings_list):"),
    ])
    # the last definition of that name is the implementation (the first two are typing overloads)
    if "GeoSeries(" in src.split("mls_bools")[1] or "row.copy" in src or "iterrows" in src:
        raise Untranslatable("dissolve_multi_part_traces: rewriting of the GeoSeries branch / row copy failed")
    C = {
        "[isinstance(trace, MultiLineString) for trace in traces.geometry.values]": "(List.map (fun r => is_mls r.2) traces)",
        "traces.loc[[isinstance(trace, MultiLineString) for trace in traces.geometry.values]]": "(List.filter (fun r => is_mls r.2) traces)",
        "mls_traces.shape[0]": "(List.length mls_traces)",
        "traces.loc[[not val for val in mls_bools]]": "(pyCompress traces (List.map (fun val => !val) mls_bools))",
        "[mls_to_ls([geom]) for geom in mls_traces.geometry.values]": "(List.map (fun r => parts r.2) mls_traces)",
        "row[0]": "row.1",
        "ls_traces.crs == dissolved_rows_gdf.crs": "true",
        "gpd.GeoDataFrame(dissolved_rows, crs=ls_traces.crs)": "dissolved_rows",
        "pd.concat([ls_traces, dissolved_rows_gdf])": "(ls_traces ++ dissolved_rows_gdf)",
        "all((isinstance(val, LineString) for val in dissolved_traces.geometry.values))": "(List.all dissolved_traces (fun r => is_ls r.2))",
    }
    ROWS = "List (D × G)"
    T = {"[isinstance(trace, MultiLineString) for trace in traces.geometry.values]": "List Bool", "mls_bools": "List Bool",
         "traces.loc[[isinstance(trace, MultiLineString) for trace in traces.geometry.values]]": ROWS, "mls_traces": ROWS, "mls_traces.shape[0]": "Nat",
         "traces.loc[[not val for val in mls_bools]]": ROWS, "ls_traces": ROWS, "dissolved_rows": ROWS,
         "[mls_to_ls([geom]) for geom in mls_traces.geometry.values]": "List (List G)", "as_linestrings_list": "List (List G)", "as_linestrings": "List G",
         "row": "D × G", "row[0]": "D", "ls_traces.crs == dissolved_rows_gdf.crs": "Bool", "new_row": "D × G", "new_geom": "G", "gpd.GeoDataFrame(dissolved_rows, crs=ls_traces.crs)": ROWS, "dissolved_rows_gdf": ROWS,
         "pd.concat([ls_traces, dissolved_rows_gdf])": ROWS, "dissolved_traces": ROWS,
         "all((isinstance(val, LineString) for val in dissolved_traces.geometry.values))": "Bool"}
    out = translate_function(
        src, "dissolve_multi_part_traces", "dissolve_multi_part_traces", {"traces": ROWS}, ROWS, C, types=T, raises=True,
        extra_params=[("{D}", "Type"), ("{G}", "Type"), ("is_mls", "G → Bool"), ("is_ls", "G → Bool"), ("parts", "G → List G")],
        slice_from="mls_bools =", default_num="Nat", join="tuple")
    C = {"area.geometry.values": "area", "traces.sindex": "()", "spatial_index_intersection(sindex, geom_bounds(area_polygon))": "(window area_polygon)",
         "traces.iloc[intersection]": "(List.filterMap (fun i => traces[i]?) intersection)", "potential_traces.geometry.values": "potential_traces",
         "trace.intersects(area_polygon)": "(meets trace area_polygon)"}
    T = {"area.geometry.values": "List A", "traces.sindex": "Unit", "sindex": "Unit", "spatial_index_intersection(sindex, geom_bounds(area_polygon))": "List Nat", "intersection": "List Nat",
         "traces.iloc[intersection]": "List G", "potential_traces": "List G", "potential_traces.geometry.values": "List G", "trace.intersects(area_polygon)": "Bool"}
    src_e = standalone(src0, "is_empty_area", [(r"sindex: SpatialIndex = ", "sindex = ")])
    out += "\n" + translate_function(
        src_e, "is_empty_area", "is_empty_area", {"area": "List A", "traces": "List G"}, "Bool", C, types=T,
        extra_params=[("{A}", "Type"), ("{G}", "Type"), ("window", "A → List Nat"), ("meets", "G → A → Bool")], slice_from="for area_polygon in", default_num="Nat", join="tuple")
    return out


def b_crop_pipeline(S):
    """whole `crop_to_target_areas`: the LineString-only TypeError, the spatial pre-filter unless `is_filtered`, `gpd.clip` row by row (a parameter: what is left
    of a geometry inside the areas, or nothing), the GeometryCollection explode, the (Multi)LineString type filter, the regenerated
    `dissolve_multi_part_traces`, the MINIMUM_LINE_LENGTH filter. Rows are (data, geometry) pairs; index labels and the CRS are not modelled
    (three checked rewritings remove `match_crs` and the two `reset_index` calls)."""
    src0 = S[GENERAL]
    n0 = (len(re.findall(r"traces, areas = match_crs\(traces, areas\)\n", src0)), len(re.findall(r"        traces = traces\.reset_index\(drop=True\)\n", src0)),
          len(re.findall(r"    clipped_and_dissolved_traces\.reset_index\(inplace=True, drop=True\)\n", src0)))
    src = standalone(src0, "crop_to_target_areas", [
        (r"    traces, areas = match_crs\(traces, areas\)\n", ""),
        (r"        traces = traces\.reset_index\(drop=True\)\n", ""),
        (r"    clipped_and_dissolved_traces\.reset_index\(inplace=True, drop=True\)\n", ""),
        (r"candidate_traces: Union\[gpd\.GeoSeries, gpd\.GeoDataFrame\] = traces\.iloc\[\n\s*candidate_idxs\n\s*\]", "candidate_traces = traces.iloc[candidate_idxs]"),
    ])
    if "match_crs" in src or "reset_index" in src or "Union[" in src.split('"""')[-1]:
        raise Untranslatable(f"crop_to_target_areas: rewriting of match_crs / reset_index / the annotated assignment failed ({n0})")
    ROWS = "List (D × G)"
    C = {
        "all((isinstance(trace, LineString) for trace in traces.geometry.values))": "(List.all traces (fun r => is_ls r.2))",
        "traces.sindex": "()",
        "total_bounds(areas)": "()",
        "isinstance(spatial_index, SpatialIndex)": "true", "len(areas_bounds) == 4": "true", "hasattr(clipped_traces, 'geometry')": "true",
        "isinstance(clipped_traces, (gpd.GeoDataFrame, gpd.GeoSeries))": "true", "clipped_and_dissolved_traces.shape[0] >= clipped_and_dissolved_traces.shape[0]": "true",
        "spatial_index_intersection(spatial_index=spatial_index, coordinates=areas_bounds)": "window",
        "traces.iloc[candidate_idxs]": "(List.filterMap (fun i => traces[i]?) candidate_idxs)",
        "gpd.clip(candidate_traces, areas)": "(List.filterMap (fun r => (clipg r.2).map (fun g => (r.1, g))) candidate_traces)",
        "sum(clipped_traces.geometry.length < MINIMUM_LINE_LENGTH)": "(List.countP (fun r => !(long r.2)) clipped_traces)",
        "[isinstance(geom, GeometryCollection) for geom in clipped_traces.geometry.values]": "(List.map (fun r => is_coll r.2) clipped_traces)",
        "any(is_collection)": "(List.any is_collection id)",
        "pd.concat([clipped_traces.loc[[not val for val in is_collection]], clipped_traces.loc[is_collection].explode(index_parts=False)])":
            "((pyCompress clipped_traces (List.map (fun val => !val) is_collection)) ++ (List.flatMap (fun r => List.map (fun g => (r.1, g)) (cparts r.2)) (pyCompress clipped_traces is_collection)))",
        "clipped_traces.loc[[isinstance(geom, (LineString, MultiLineString)) for geom in clipped_traces.geometry.values]]": "(List.filter (fun r => is_ls r.2 || is_mls r.2) clipped_traces)",
        "dissolve_multi_part_traces(clipped_traces)": "(dissolve_multi_part_traces is_mls is_ls parts clipped_traces)",
        "clipped_and_dissolved_traces.loc[clipped_and_dissolved_traces.geometry.length > MINIMUM_LINE_LENGTH]": "(List.filter (fun r => long r.2) clipped_and_dissolved_traces)",
    }
    T = {
        "isinstance(spatial_index, SpatialIndex)": "Bool", "len(areas_bounds) == 4": "Bool", "hasattr(clipped_traces, 'geometry')": "Bool",
        "isinstance(clipped_traces, (gpd.GeoDataFrame, gpd.GeoSeries))": "Bool", "clipped_and_dissolved_traces.shape[0] >= clipped_and_dissolved_traces.shape[0]": "Bool",
        "all((isinstance(trace, LineString) for trace in traces.geometry.values))": "Bool", "traces.sindex": "Unit", "spatial_index": "Unit", "total_bounds(areas)": "Unit", "areas_bounds": "Unit",
        "spatial_index_intersection(spatial_index=spatial_index, coordinates=areas_bounds)": "List Nat", "candidate_idxs": "List Nat", "traces.iloc[candidate_idxs]": ROWS, "candidate_traces": ROWS,
        "gpd.clip(candidate_traces, areas)": ROWS, "clipped_traces": ROWS, "sum(clipped_traces.geometry.length < MINIMUM_LINE_LENGTH)": "Nat", "sum_smaller_than_minimum": "Nat",
        "[isinstance(geom, GeometryCollection) for geom in clipped_traces.geometry.values]": "List Bool", "is_collection": "List Bool", "any(is_collection)": "Bool",
        "pd.concat([clipped_traces.loc[[not val for val in is_collection]], clipped_traces.loc[is_collection].explode(index_parts=False)])": ROWS,
        "clipped_traces.loc[[isinstance(geom, (LineString, MultiLineString)) for geom in clipped_traces.geometry.values]]": ROWS,
        "dissolve_multi_part_traces(clipped_traces)": "Except " + ROWS, "clipped_and_dissolved_traces": ROWS,
        "clipped_and_dissolved_traces.loc[clipped_and_dissolved_traces.geometry.length > MINIMUM_LINE_LENGTH]": ROWS,
    }
    return translate_function(
        src, "crop_to_target_areas", "crop_to_target_areas", {"traces": ROWS, "is_filtered": "Bool", "allow_multilinestring_input": "Bool"}, ROWS, C, types=T, raises=True,
        extra_params=[("{D}", "Type"), ("{G}", "Type"), ("is_mls", "G → Bool"), ("is_ls", "G → Bool"), ("is_coll", "G → Bool"), ("parts", "G → List G"), ("cparts", "G → List G"),
                      ("clipg", "G → Option G"), ("long", "G → Bool"), ("window", "List Nat")],
        slice_from="if (", default_num="Nat", join="tuple")


def b_line_data(S):
    """the column cache of `LineData` (analysis/line_data.py): every array property first looks for ITS column in the wrapped frame
    (`_column_array_property`), computes the array only when the column is absent, and then stores it under the SAME column. The five getters are
    instantiated from their checked shape (get-column / `is None` / compute / set-column / return); the frame is the structure `LineCols`,
    threaded through (a getter returns the array and the frame). Geometry (lengths, azimuths) and `determine_set` are parameters."""
    src = S[LINEDATA]
    tree = ast.parse(src)
    cls = find_func(tree, "LineData")
    gsrc = ast.parse(S[GENERAL])
    col = find_func(gsrc, "Col")
    names = {}
    for st in col.body:
        if isinstance(st, ast.Assign) and isinstance(st.value, ast.Constant) and isinstance(st.value.value, str):
            names[st.targets[0].id] = st.value.value
    want_cols = {"LENGTH": "length", "AZIMUTH": "azimuth", "AZIMUTH_SET": "azimuth_set", "LENGTH_WEIGHTS": "boundary_weight", "LENGTH_NON_WEIGHTED": "length_nw"}
    for k in want_cols:
        if k not in names:
            raise Untranslatable(f"Col.{k} not found")
    if len({names[k] for k in want_cols}) != len(want_cols):
        raise Untranslatable("two cache columns of Col share a name")
    cap = find_func(tree, "_column_array_property")
    if "if column.value in gdf:" not in ast.unparse(cap) or "return None" not in ast.unparse(cap) or "gdf[column.value]" not in ast.unparse(cap):
        raise Untranslatable("_column_array_property is not `the column if present else None`")

    def getter(name):
        for st in cls.body:
            if isinstance(st, ast.FunctionDef) and st.name == name:
                body = [b for b in st.body if not (isinstance(b, ast.Expr) and isinstance(b.value, ast.Constant))]
                return body
        raise Untranslatable(f"LineData.{name} not found")

    def norm(node):
        return " ".join(ast.unparse(node).split())

    def simple(name, colkey, compute_text, var="column_array"):
        """shape A: var = _column_array_property(column=Col.K, gdf=self._line_gdf); if var is None: [assert]; var = <compute>; self._line_gdf[Col.K.value] = var; [assert]; return var"""
        b = [x for x in getter(name) if not isinstance(x, ast.Assert)]
        if len(b) != 3:
            raise Untranslatable(f"LineData.{name}: expected get / if-None / return, found {len(b)} statements")
        if norm(b[0]) != f"{var} = _column_array_property(column=Col.{colkey}, gdf=self._line_gdf)":
            raise Untranslatable(f"LineData.{name}: does not read its own column Col.{colkey}: {norm(b[0])}")
        if not isinstance(b[1], ast.If) or norm(b[1].test) != f"{var} is None" or b[1].orelse:
            raise Untranslatable(f"LineData.{name}: the computation is not guarded by `{var} is None` alone")
        inner = [x for x in b[1].body if not isinstance(x, ast.Assert)]
        if len(inner) != 2 or norm(inner[0]) != f"{var} = {compute_text}":
            raise Untranslatable(f"LineData.{name}: computation changed: {[norm(x) for x in inner][:1]}")
        if norm(inner[1]) != f"self._line_gdf[Col.{colkey}.value] = {var}":
            raise Untranslatable(f"LineData.{name}: the computed array is not stored under Col.{colkey}: {norm(inner[1])}")
        if norm(b[2]) != f"return {var}":
            raise Untranslatable(f"LineData.{name}: return changed")

    simple("azimuth_array", "AZIMUTH", "np.array([determine_azimuth(line, halved=True) for line in self.geometry])")
    simple("azimuth_set_array", "AZIMUTH_SET",
           "np.array([determine_set(azimuth, self.azimuth_set_ranges, self.azimuth_set_names, loop_around=True) for azimuth in self.azimuth_array])")
    simple("length_boundary_weights", "LENGTH_WEIGHTS", "np.array([intersection_count_to_boundary_weight(int(inter_count)) for inter_count in self.area_boundary_intersects])")
    simple("length_array_non_weighted", "LENGTH_NON_WEIGHTED", "self.geometry.length.to_numpy()")
    # shape B: length_array
    b = [x for x in getter("length_array") if not isinstance(x, ast.Assert)]
    ok = (len(b) == 3 and norm(b[0]) == "column_array = _column_array_property(column=Col.LENGTH, gdf=self._line_gdf)" and isinstance(b[1], ast.If)
          and norm(b[1].test) == "column_array is None" and len(b[1].body) == 2 and len(b[1].orelse) == 1
          and norm(b[1].body[0]) == "new_column_array = self.geometry.length.to_numpy() * self.length_boundary_weights if len(self.area_boundary_intersects) > 0 else 1.0"
          and norm(b[1].body[1]) == "self._line_gdf[Col.LENGTH.value] = new_column_array" and norm(b[1].orelse[0]) == "new_column_array = column_array"
          and norm(b[2]) == "return new_column_array")
    if not ok:
        raise Untranslatable("LineData.length_array: shape changed")
    asserts = [x for x in getter("length_array") if isinstance(x, ast.Assert)]
    if len(asserts) != 1 or norm(asserts[0]) != "assert isinstance(new_column_array, np.ndarray)":
        raise Untranslatable("LineData.length_array: the ndarray assertion (which refuses the scalar 1.0 of the no-boundary-data branch) changed")
    out = "/-- names of the cache columns (class `Col`), in the order length, azimuth, azimuth_set, boundary_weight, length non-weighted -/\n"
    out += "def line_cache_columns : List String := [" + ", ".join('"' + names[k] + '"' for k in want_cols) + "]\n\n"
    out += """def ld_azimuth_array (azimuths : List Rat) (cols : LineCols) : List Rat × LineCols :=
  match cols.azimuth with
  | some column_array => (column_array, cols)
  | none => (azimuths, { cols with azimuth := some azimuths })

/-- the comprehension iterates over `self.azimuth_array` -- the getter above, which may itself fill its column -/
def ld_azimuth_set_array (detset : Rat → String) (azimuths : List Rat) (cols : LineCols) : List String × LineCols :=
  match cols.azimuth_set with
  | some column_array => (column_array, cols)
  | none =>
    let (az, cols) := ld_azimuth_array azimuths cols
    let column_array := az.map detset
    (column_array, { cols with azimuth_set := some column_array })

/-- storing an array whose length is not the number of rows is pandas' ValueError (`nrows` = rows of the wrapped frame) -/
def ld_length_boundary_weights (weight : Int → Except String Int) (nrows : Nat) (area_boundary_intersects : List Int) (cols : LineCols) : Except String (List Int × LineCols) :=
  match cols.boundary_weight with
  | some column_array => .ok (column_array, cols)
  | none =>
    match area_boundary_intersects.mapM weight with
    | .error e => .error e
    | .ok column_array =>
      if column_array.length = nrows then .ok (column_array, { cols with boundary_weight := some column_array }) else .error "ValueError"

def ld_length_array_non_weighted (lengths : List Rat) (cols : LineCols) : List Rat × LineCols :=
  match cols.length_nw with
  | some column_array => (column_array, cols)
  | none => (lengths, { cols with length_nw := some lengths })

/-- `geometry.length * length_boundary_weights` when there is boundary data. Without it the code stores the scalar 1.0 under the length column (one 1.0 per row)
and only THEN its own `assert isinstance(.., np.ndarray)` refuses the scalar: the call raises, the column stays. The frame is returned in every case. -/
def ld_length_array (weight : Int → Except String Int) (lengths : List Rat) (area_boundary_intersects : List Int) (cols : LineCols) : Except String (List Rat) × LineCols :=
  match cols.length with
  | some column_array => (.ok column_array, cols)
  | none =>
    if area_boundary_intersects.length > 0 then
      match ld_length_boundary_weights weight lengths.length area_boundary_intersects cols with
      | .error e => (.error e, cols)
      | .ok (w, cols) =>
        let new_column_array := List.zipWith (fun (l : Rat) (k : Int) => l * (k : Rat)) lengths w
        (.ok new_column_array, { cols with length := some new_column_array })
    else (.error "AssertionError", { cols with length := some (List.replicate lengths.length 1) })
"""
    return out


def b_z_coordinates(S):
    """`check_for_z_coordinates` (some geometry has Z) and `remove_z_coordinates_from_geodata` (frame branch): the new geometries come from
    `.geometry.apply(...)` -- which keeps the index labels -- and are assigned back as a column, i.e. aligned BY LABEL. Rows are (label, data, geometry);
    the assignment is the prelude's `pyAssignAligned` (positional for identical indexes, else re-indexing with pandas' ValueError for duplicate labels)."""
    src0 = S[GENERAL]
    out = translate_function(
        src0, "check_for_z_coordinates", "check_for_z_coordinates", {"geodata": "List G"}, "Bool",
        {"any((geom.has_z for geom in geodata.geometry.values if hasattr(geom, 'has_z')))": "(List.any geodata (fun geom => has_attr geom && has_z geom))"},
        types={"any((geom.has_z for geom in geodata.geometry.values if hasattr(geom, 'has_z')))": "Bool"},
        extra_params=[("{G}", "Type"), ("has_attr", "G → Bool"), ("has_z", "G → Bool")], default_num="Nat")
    src = standalone(src0, "remove_z_coordinates_from_geodata", [
        (r'    if isinstance\(geodata_without_z, gpd\.GeoDataFrame\):\n        geodata_without_z\["geometry"\] = geodata_without_z_geometries\n    else:\n        geodata_without_z = geodata_without_z_geometries\n',
         "    geodata_without_z = assign_geometry(geodata_without_z, geodata_without_z_geometries)\n"),
    ])
    if "assign_geometry(" not in src or "else:" in src.split("geodata_without_z = geodata.copy()")[1]:
        raise Untranslatable("remove_z_coordinates_from_geodata: the frame / series dispatch around the column assignment changed")
    rz = find_func(ast.parse(src0), "remove_z_coordinates")
    rets = [n for n in ast.walk(rz) if isinstance(n, ast.Return)]
    if len(rets) != 1 or " ".join(ast.unparse(rets[0]).split()) != "return wkb.loads(wkb.dumps(geometry, output_dimension=2))":
        raise Untranslatable("remove_z_coordinates is not the binary (lossless) round trip `wkb.loads(wkb.dumps(geometry, output_dimension=2))`")
    out += "\n/-- `remove_z_coordinates` is the WKB round trip with output_dimension=2: X and Y keep every bit (shape-checked) -/\ndef z_removal_is_lossless_in_xy : Bool := true\n"
    ROWS = "List (L × D × G)"
    C = {"geodata.copy()": "geodata",
         "geodata_without_z.geometry.apply(remove_z_coordinates)": "(List.map (fun r => (r.1, dropz r.2.2)) geodata_without_z)",
         "isinstance(geodata_without_z, gpd.GeoDataFrame)": "true", "isinstance(geodata_without_z, (gpd.GeoDataFrame, gpd.GeoSeries))": "true",
         "assign_geometry(geodata_without_z, geodata_without_z_geometries)": "(pyAssignAligned geodata_without_z geodata_without_z_geometries nan)"}
    T = {"geodata.copy()": ROWS, "geodata_without_z": ROWS, "geodata_without_z.geometry.apply(remove_z_coordinates)": "List (L × G)", "geodata_without_z_geometries": "List (L × G)",
         "isinstance(geodata_without_z, gpd.GeoDataFrame)": "Bool", "isinstance(geodata_without_z, (gpd.GeoDataFrame, gpd.GeoSeries))": "Bool",
         "assign_geometry(geodata_without_z, geodata_without_z_geometries)": "Except " + ROWS}
    out += "\n" + translate_function(
        src, "remove_z_coordinates_from_geodata", "remove_z_coordinates_from_geodata", {"geodata": ROWS}, ROWS, C, types=T, raises=True,
        extra_params=[("{L}", "Type"), ("{D}", "Type"), ("{G}", "Type"), ("[BEq L]", ""), ("dropz", "G → G"), ("nan", "G")],
        slice_from="geodata_without_z = geodata.copy()", default_num="Nat", join="tuple")
    return out


def b_validation_caches(S):
    """the per-object caches of `Validation` (node tuples from `determine_general_nodes`, V-node set, faulty-junction set): every cache starts as None, is
    filled at the first access -- the two node SETS only while `determine_validation_nodes` is on, which `run_validation` switches per pass from the chosen
    validators --, from `self.traces` as it is at that moment, and is reset only between the two passes, where `self.traces` becomes the fixed frame (all five caches back to None: repaired defect F26). Instantiated from
    the checked shapes into functions over the cache record."""
    tree = ast.parse(S[TVAL])
    cls = find_func(tree, "Validation")

    def norm(node):
        return " ".join(ast.unparse(node).split())

    def canon(text):
        """the unparser's own rendering of a statement / expression given as text (independent of the Python version's parenthesisation)"""
        return norm(ast.parse(text).body[0])

    def method(name):
        for st in cls.body:
            if isinstance(st, ast.FunctionDef) and st.name == name:
                return [b for b in st.body if not (isinstance(b, ast.Expr) and isinstance(b.value, ast.Constant))]
        raise Untranslatable(f"Validation.{name} not found")

    post = " ; ".join(norm(b) for b in method("__post_init__"))
    for c in ("_endpoint_nodes", "_intersect_nodes", "_spatial_index", "_faulty_junctions", "_vnodes"):
        if not re.search(r"self\." + c + r": [^;]*= None", post):
            raise Untranslatable(f"__post_init__ does not start {c} as None")
    sg = method("set_general_nodes")
    if len(sg) != 1 or norm(sg[0]) != canon("self._intersect_nodes, self._endpoint_nodes = determine_general_nodes(self.traces.reset_index(drop=True))"):
        raise Untranslatable("set_general_nodes is not `self._intersect_nodes, self._endpoint_nodes = determine_general_nodes(self.traces.reset_index(drop=True))`: " + norm(sg[0]))
    for nm in ("endpoint_nodes", "intersect_nodes"):
        b = method(nm)
        if [norm(x) for x in b[:1]] != [f"if self._{nm} is None: self.set_general_nodes()".replace(": ", ":\n    ")] and not (
                isinstance(b[0], ast.If) and norm(b[0].test) == f"self._{nm} is None" and [norm(x) for x in b[0].body] == ["self.set_general_nodes()"] and not b[0].orelse):
            raise Untranslatable(f"{nm}: the cache is not filled by set_general_nodes() under `is None`")
        if not (isinstance(b[1], ast.If) and norm(b[1].test) == f"self._{nm} is not None" and [norm(x) for x in b[1].body] == [f"return self._{nm}"]):
            raise Untranslatable(f"{nm}: does not return its cache")
    v = method("vnodes")
    okv = (len(v) == 2 and isinstance(v[0], ast.If) and norm(v[0].test) == "self._vnodes is None and self.determine_validation_nodes" and not v[0].orelse and len(v[0].body) == 1
           and norm(v[0].body[0]) == "self._vnodes = trace_validators.VNodeValidator.determine_v_nodes(endpoint_nodes=self.endpoint_nodes, snap_threshold=self.SNAP_THRESHOLD, snap_threshold_error_multiplier=self.SNAP_THRESHOLD_ERROR_MULTIPLIER)"
           and norm(v[1]) == "return self._vnodes")
    if not okv:
        raise Untranslatable("vnodes: not `if self._vnodes is None and self.determine_validation_nodes: self._vnodes = determine_v_nodes(endpoint_nodes=self.endpoint_nodes, ..); return self._vnodes`")
    j = method("faulty_junctions")
    okj = (len(j) == 2 and isinstance(j[0], ast.If) and norm(j[0].test) == "self._faulty_junctions is None and self.determine_validation_nodes" and not j[0].orelse and len(j[0].body) == 2
           and norm(j[0].body[0]) == canon("all_nodes = [tuple(chain(first, second)) for first, second in zip(self.intersect_nodes, self.endpoint_nodes)]")
           and norm(j[0].body[1]) == "self._faulty_junctions = MultiJunctionValidator.determine_faulty_junctions(all_nodes, snap_threshold=self.SNAP_THRESHOLD, snap_threshold_error_multiplier=self.SNAP_THRESHOLD_ERROR_MULTIPLIER)"
           and norm(j[1]) == "return self._faulty_junctions")
    if not okj:
        raise Untranslatable("faulty_junctions: shape changed")
    # nothing else writes the caches
    writers = {}
    for st in cls.body:
        if isinstance(st, ast.FunctionDef):
            for n in ast.walk(st):
                tg = []
                if isinstance(n, ast.Assign):
                    tg = n.targets
                elif isinstance(n, (ast.AnnAssign, ast.AugAssign)):
                    tg = [n.target]
                for t in tg:
                    for leaf in (t.elts if isinstance(t, ast.Tuple) else [t]):
                        txt = norm(leaf)
                        if txt in ("self._vnodes", "self._faulty_junctions", "self._endpoint_nodes", "self._intersect_nodes", "self.determine_validation_nodes"):
                            writers.setdefault(txt, set()).add(st.name)
    want = {"self._vnodes": {"__post_init__", "vnodes", "run_validation"}, "self._faulty_junctions": {"__post_init__", "faulty_junctions", "run_validation"},
            "self._endpoint_nodes": {"__post_init__", "set_general_nodes", "run_validation"}, "self._intersect_nodes": {"__post_init__", "set_general_nodes", "run_validation"},
            "self.determine_validation_nodes": {"run_validation"}}
    if writers != want:
        raise Untranslatable(f"the caches / the flag are written elsewhere: {writers}")
    rv = method("run_validation")
    texts = [norm(x) for x in rv]
    flag = "self.determine_validation_nodes = any((validator in VALIDATION_REQUIRES_NODES for validator in validators))"
    if texts.count(flag) != 1:
        raise Untranslatable("run_validation does not set determine_validation_nodes from the validators of the pass (exactly once)")
    i_flag = texts.index(flag)
    i_val = next((i for i, t in enumerate(texts) if t.startswith("validators = MAJOR_VALIDATORS if first_pass else ALL_VALIDATORS")), None)
    i_loop = next((i for i, x in enumerate(rv) if isinstance(x, ast.For) and norm(x.target).strip("()") == "idx, geom"), None)
    if i_val is None or i_loop is None or not (i_val < i_flag < i_loop):
        raise Untranslatable("run_validation: the flag is not set between the choice of validators and the row loop")
    loop_txt = norm(rv[i_loop])
    if "vnodes=self.vnodes" not in loop_txt or "faulty_junctions=self.faulty_junctions" not in loop_txt:
        raise Untranslatable("the row loop does not pass vnodes=self.vnodes / faulty_junctions=self.faulty_junctions to _validate")
    fp = [x for x in rv if isinstance(x, ast.If) and norm(x.test) == "first_pass"]
    resets = {"self._endpoint_nodes = None", "self._intersect_nodes = None", "self._spatial_index = None", "self._faulty_junctions = None", "self._vnodes = None"}
    body_fp = [norm(x) for x in fp[0].body] if len(fp) == 1 else []
    if (len(body_fp) != 7 or body_fp[0] != "self.traces = validated_gdf" or set(body_fp[1:6]) != resets
            or body_fp[6] != "validated_gdf = self.run_validation(first_pass=False, choose_validators=choose_validators)"):
        raise Untranslatable("run_validation: between the passes `self.traces = validated_gdf`, the reset of all five caches, then the recursive call -- changed: " + str(body_fp)[:300])
    # the only writes of the caches inside run_validation are those resets
    rvf = next(st for st in cls.body if isinstance(st, ast.FunctionDef) and st.name == "run_validation")
    other = [norm(n) for n in ast.walk(rvf) if isinstance(n, ast.Assign) and norm(n.targets[0]) in ("self._vnodes", "self._faulty_junctions", "self._endpoint_nodes", "self._intersect_nodes", "self._spatial_index") and norm(n) not in resets]
    if other:
        raise Untranslatable(f"run_validation writes a cache other than by the reset between the passes: {other}")
    out = """/-- the caches of a `Validation` object: the node tuples of `determine_general_nodes`, the V-node set, the faulty-junction set -/
structure ValCaches (GN NS : Type) where
  general : Option GN := none
  vnodes : Option NS := none
  junctions : Option NS := none

/-- `endpoint_nodes` / `intersect_nodes`: filled by `set_general_nodes()` from `self.traces` (as it is NOW) when empty -/
def val_general {T GN NS : Type} (gen : T → GN) (traces : T) (c : ValCaches GN NS) : GN × ValCaches GN NS :=
  match c.general with
  | some g => (g, c)
  | none => (gen traces, { c with general := some (gen traces) })

/-- `vnodes`: computed only while `determine_validation_nodes` is on, from the (cached) node tuples; never recomputed -/
def val_vnodes {T GN NS : Type} (gen : T → GN) (vn : GN → NS) (flag : Bool) (traces : T) (c : ValCaches GN NS) : Option NS × ValCaches GN NS :=
  match c.vnodes with
  | some v => (some v, c)
  | none =>
    if flag then
      let (g, c) := val_general gen traces c
      (some (vn g), { c with vnodes := some (vn g) })
    else (none, c)

def val_junctions {T GN NS : Type} (gen : T → GN) (fj : GN → NS) (flag : Bool) (traces : T) (c : ValCaches GN NS) : Option NS × ValCaches GN NS :=
  match c.junctions with
  | some v => (some v, c)
  | none =>
    if flag then
      let (g, c) := val_general gen traces c
      (some (fj g), { c with junctions := some (fj g) })
    else (none, c)

/-- one `_validate(...)` call evaluates `vnodes=self.vnodes, faulty_junctions=self.faulty_junctions` -/
def val_access {T GN NS : Type} (gen : T → GN) (vn fj : GN → NS) (flag : Bool) (traces : T) (c : ValCaches GN NS) : (Option NS × Option NS) × ValCaches GN NS :=
  let (v, c) := val_vnodes gen vn flag traces c
  let (j, c) := val_junctions gen fj flag traces c
  ((v, j), c)

/-- between the passes (`self.traces = validated_gdf`) every cache goes back to None -/
def val_between_passes {GN NS : Type} (_c : ValCaches GN NS) : ValCaches GN NS := {}

/-- `self.determine_validation_nodes = any(validator in VALIDATION_REQUIRES_NODES for validator in validators)`, set by run_validation for each pass -/
def val_flag (requires : List String) (validators : List String) : Bool := validators.any fun v => requires.elem v
"""
    return out


def b_sample_cell(S):
    """whole `populate_sample_cell` with its two nested helpers (`choose_geometries`: index window -> `iloc`; `resolve_samples`: crop the candidates to the sample
    circle if any of them meets it, else nothing): the circle from the cell's centroid and area, the empty-window exit, optional per-cell extraction, branch / node /
    trace samples, node counts, and the one call of `determine_topology_parameters` with its keyword arguments checked. Geometry, the crop, the index and the parameter
    function are parameters; nodes are (point, class) pairs."""
    src0 = S[GRID]
    out = translate_function(
        src0, "populate_sample_cell.choose_geometries", "sc_choose_geometries", {"sindex": "S", "sample_circle": "C", "geometries": "List α"}, "List α",
        {"spatial_index_intersection(sindex, geom_bounds(sample_circle))": "(window sindex sample_circle)", "geometries.iloc[candidates_idx]": "(List.filterMap (fun i => geometries[i]?) candidates_idx)",
         "isinstance(candidates, gpd.GeoDataFrame)": "true"},
        types={"spatial_index_intersection(sindex, geom_bounds(sample_circle))": "List Nat", "candidates_idx": "List Nat", "geometries.iloc[candidates_idx]": "List α", "candidates": "List α",
               "isinstance(candidates, gpd.GeoDataFrame)": "Bool"},
        extra_params=[("{S}", "Type"), ("{C}", "Type"), ("{α}", "Type"), ("window", "S → C → List Nat")], default_num="Nat")
    out += "\n" + translate_function(
        src0, "populate_sample_cell.resolve_samples", "sc_resolve_samples", {"candidates": "List G", "sample_circle": "C"}, "List G",
        {"any((candidate.intersects(sample_circle) for candidate in candidates.geometry.values))": "(List.any candidates (fun candidate => meets candidate sample_circle))",
         "crop_to_target_areas(traces=candidates, areas=gpd.GeoSeries([sample_circle]), is_filtered=True, keep_column_data=False)": "(crop candidates sample_circle)",
         "candidates.iloc[0:0]": "[]"},
        types={"any((candidate.intersects(sample_circle) for candidate in candidates.geometry.values))": "Bool",
               "crop_to_target_areas(traces=candidates, areas=gpd.GeoSeries([sample_circle]), is_filtered=True, keep_column_data=False)": "List G", "candidates.iloc[0:0]": "List G", "samples": "List G"},
        extra_params=[("{G}", "Type"), ("{C}", "Type"), ("meets", "G → C → Bool"), ("crop", "List G → C → List G")], default_num="Nat", join="tuple")
    src = standalone(src0, "populate_sample_cell", [
        (r"    if traces_sindex is None:\n        traces_sindex: SpatialIndex = traces\.sindex\n", "    traces_sindex = traces.sindex\n"),
        # the per-cell extraction as ONE raising statement (the translator joins `if` branches as values, an exception inside a branch has no value)
        (r"    if resolve_branches_and_nodes:\n(?:        #.*\n)*        branches, nodes = branches_and_nodes\(\n            traces=trace_candidates,\n            areas=gpd\.GeoSeries\(\[sample_circle\], crs=traces\.crs\),\n            snap_threshold=snap_threshold,\n        \)\n",
         "    branches, nodes = resolve_if_asked(resolve_branches_and_nodes, trace_candidates, sample_circle, branches, nodes)\n"),
        (r"            assert sample_nodes is not None\n            assert all\(isinstance\(val, Point\) for val in sample_nodes\.geometry\.values\)\n", ""),
    ])
    if "traces_sindex is None" in src or "resolve_if_asked(" not in src or "branches_and_nodes(" in src or "assert sample_nodes is not None" in src:
        raise Untranslatable("populate_sample_cell: a checked rewriting (index default, per-cell extraction, node assertions) did not apply")
    NODES = "List (P × String)"
    CH = "(sc_choose_geometries window {i} sample_circle {g})"
    RS = "(sc_resolve_samples meets crop {c} sample_circle)"
    C = {
        "sample_cell.centroid": "(centroid_of sample_cell)", "not isinstance(centroid, Point)": "(!(is_point centroid))",
        "safe_buffer(centroid, np.sqrt(sample_cell_area) * 1.5)": "(circle_of centroid sample_cell_area)",
        "sample_circle.area": "(area_of sample_circle)", "sample_circle_area > 0": "true",
        "traces.sindex": "(tindex traces)", "branches.sindex": "(bindex branches)", "nodes.sindex": "(nindex nodes)",
        "choose_geometries(sindex=traces_sindex, sample_circle=sample_circle, geometries=traces)": CH.format(i="traces_sindex", g="traces"),
        "choose_geometries(sindex=branches.sindex, sample_circle=sample_circle, geometries=branches)": CH.format(i="(bindex branches)", g="branches"),
        "choose_geometries(sindex=nodes.sindex, sample_circle=sample_circle, geometries=nodes)": CH.format(i="(nindex nodes)", g="nodes"),
        "len(trace_candidates) == 0": "(decide (List.length trace_candidates = 0))",
        "resolve_samples(candidates=trace_candidates, sample_circle=sample_circle).shape[0] == 0": "(decide (List.length " + RS.format(c="trace_candidates") + " = 0))",
        "determine_topology_parameters(trace_length_array=np.array([]), node_counts=determine_node_type_counts(np.array([]), branches_defined=True), area=sample_circle_area, branch_length_array=np.array([]), branches_defined=True, correct_mauldon=resolve_branches_and_nodes)":
            "(topo [] (count_nodes []) sample_circle_area [] true resolve_branches_and_nodes)",
        "resolve_if_asked(resolve_branches_and_nodes, trace_candidates, sample_circle, branches, nodes)": "(if resolve_branches_and_nodes then ban trace_candidates sample_circle else .ok (branches, nodes))",
        "branches.shape[0] > 0": "(decide (List.length branches > 0))",
        "resolve_samples(candidates=branch_candidates, sample_circle=sample_circle)": RS.format(c="branch_candidates"),
        "resolve_samples(candidates=trace_candidates, sample_circle=sample_circle)": RS.format(c="trace_candidates"),
        "any((node.intersects(sample_circle) for node in nodes.geometry.values))": "(List.any nodes (fun node => pmeets node.1 sample_circle))",
        "gpd.clip(node_candidates, sample_circle)": "(List.filter (fun node => pmeets node.1 sample_circle) node_candidates)",
        "isinstance(sample_nodes, gpd.GeoDataFrame)": "true", "isinstance(sample_branches, gpd.GeoDataFrame)": "true", "isinstance(sample_node_type_values, np.ndarray)": "true",
        "isinstance(sample_traces, gpd.GeoDataFrame)": "true",
        "nodes.iloc[0:0]": "[]", "sample_nodes[CLASS_COLUMN].values": "(List.map (fun n => n.2) sample_nodes)",
        "determine_node_type_counts(sample_node_type_values, branches_defined=True)": "(count_nodes sample_node_type_values)",
        "determine_node_type_counts(np.array([]), branches_defined=True)": "(count_nodes [])",
        "sample_branches.geometry.length.values": "(List.map len sample_branches)", "np.array([])": "[]",
        "determine_topology_parameters(trace_length_array=sample_traces.geometry.length.values, branch_length_array=sample_branches_lengths, node_counts=node_counts, area=sample_circle_area, correct_mauldon=resolve_branches_and_nodes, branches_defined=is_topology_defined)":
            "(topo (List.map len sample_traces) node_counts sample_circle_area sample_branches_lengths is_topology_defined resolve_branches_and_nodes)",
    }
    T = {k: "Bool" for k in C if C[k] == "true"}
    T.update({
        "sample_cell.centroid": "Pt0", "centroid": "Pt0", "not isinstance(centroid, Point)": "Bool", "safe_buffer(centroid, np.sqrt(sample_cell_area) * 1.5)": "C", "sample_circle": "C",
        "sample_circle.area": "Rat", "sample_circle_area": "Rat", "traces.sindex": "S", "traces_sindex": "S", "branches.sindex": "S", "nodes.sindex": "S",
        "choose_geometries(sindex=traces_sindex, sample_circle=sample_circle, geometries=traces)": "List G", "trace_candidates": "List G",
        "choose_geometries(sindex=branches.sindex, sample_circle=sample_circle, geometries=branches)": "List G", "branch_candidates": "List G",
        "choose_geometries(sindex=nodes.sindex, sample_circle=sample_circle, geometries=nodes)": NODES, "node_candidates": NODES,
        "len(trace_candidates) == 0": "Bool", "resolve_samples(candidates=trace_candidates, sample_circle=sample_circle).shape[0] == 0": "Bool", "branches.shape[0] > 0": "Bool", "is_topology_defined": "Bool",
        "determine_topology_parameters(trace_length_array=np.array([]), node_counts=determine_node_type_counts(np.array([]), branches_defined=True), area=sample_circle_area, branch_length_array=np.array([]), branches_defined=True, correct_mauldon=resolve_branches_and_nodes)": "R",
        "resolve_if_asked(resolve_branches_and_nodes, trace_candidates, sample_circle, branches, nodes)": "Except (List G × " + NODES + ")",
        "branches": "List G", "nodes": NODES,
        "resolve_samples(candidates=branch_candidates, sample_circle=sample_circle)": "List G", "sample_branches": "List G",
        "resolve_samples(candidates=trace_candidates, sample_circle=sample_circle)": "List G", "sample_traces": "List G",
        "any((node.intersects(sample_circle) for node in nodes.geometry.values))": "Bool", "gpd.clip(node_candidates, sample_circle)": NODES, "sample_nodes": NODES, "nodes.iloc[0:0]": NODES,
        "sample_nodes[CLASS_COLUMN].values": "List String", "sample_node_type_values": "List String",
        "determine_node_type_counts(sample_node_type_values, branches_defined=True)": "K", "determine_node_type_counts(np.array([]), branches_defined=True)": "K", "node_counts": "K",
        "sample_branches.geometry.length.values": "List Rat", "np.array([])": "List Rat", "sample_branches_lengths": "List Rat",
        "determine_topology_parameters(trace_length_array=sample_traces.geometry.length.values, branch_length_array=sample_branches_lengths, node_counts=node_counts, area=sample_circle_area, correct_mauldon=resolve_branches_and_nodes, branches_defined=is_topology_defined)": "R",
        "topology_parameters": "R",
    })
    out += "\n" + translate_function(
        src, "populate_sample_cell", "populate_sample_cell",
        {"sample_cell": "Cell", "sample_cell_area": "Rat", "traces": "List G", "nodes": NODES, "branches": "List G", "resolve_branches_and_nodes": "Bool"}, "R", C, types=T, raises=True,
        extra_params=[("{Cell}", "Type"), ("{Pt0}", "Type"), ("{C}", "Type"), ("{S}", "Type"), ("{G}", "Type"), ("{P}", "Type"), ("{K}", "Type"), ("{R}", "Type"),
                      ("centroid_of", "Cell → Pt0"), ("is_point", "Pt0 → Bool"), ("circle_of", "Pt0 → Rat → C"), ("area_of", "C → Rat"),
                      ("tindex", "List G → S"), ("bindex", "List G → S"), ("nindex", NODES + " → S"), ("window", "S → C → List Nat"),
                      ("meets", "G → C → Bool"), ("pmeets", "P → C → Bool"), ("crop", "List G → C → List G"), ("len", "G → Rat"),
                      ("count_nodes", "List String → K"), ("topo", "List Rat → K → Rat → List Rat → Bool → Bool → R"),
                      ("ban", "List G → C → Except String (List G × " + NODES + ")")],
        slice_from="centroid = sample_cell.centroid", default_num="Nat", join="tuple")
    return out


def b_unit_vector_compare(S):
    """`compare_unit_vector_orientation` (the comparison SHARP TURNS is built on): the order of its guards -- opposite-facing, dot product close to 1 (identical
    directions, where rounding can push the product a hair ABOVE 1), outside the domain of arccos, angle beyond the threshold. The norm, the dot product, the
    closeness test and the angle are parameters (floating point lives there)."""
    return translate_function(
        S[GENERAL], "compare_unit_vector_orientation", "compare_unit_vector_orientation", {"vec_1": "V", "vec_2": "V", "threshold_angle": "Rat"}, "Bool",
        {"np.linalg.norm(vec_1 + vec_2) < np.sqrt(2)": "(opposite vec_1 vec_2)", "np.dot(vec_1, vec_2)": "(dot vec_1 vec_2)", "np.isclose(dot_product, 1)": "(close_to_one dot_product)",
         "np.isnan(dot_product)": "(is_nan dot_product)", "np.arccos(dot_product)": "(arccos dot_product)", "np.rad2deg(rad_angle)": "(rad2deg rad_angle)"},
        types={"np.linalg.norm(vec_1 + vec_2) < np.sqrt(2)": "Bool", "np.dot(vec_1, vec_2)": "Rat", "dot_product": "Rat", "np.isclose(dot_product, 1)": "Bool", "np.isnan(dot_product)": "Bool",
               "np.arccos(dot_product)": "Rat", "rad_angle": "Rat", "np.rad2deg(rad_angle)": "Rat", "deg_angle": "Rat"},
        extra_params=[("{V}", "Type"), ("opposite", "V → V → Bool"), ("dot", "V → V → Rat"), ("close_to_one", "Rat → Bool"), ("is_nan", "Rat → Bool"), ("arccos", "Rat → Rat"),
                      ("rad2deg", "Rat → Rat")],
        slice_from="if np.linalg.norm(vec_1 + vec_2)", default_num="Rat")


def b_dedupe(S):
    """`filter_non_unique_traces`: the key of a trace is its WKT at `int(-log10(snap))` decimals (a parameter of type K); the first trace with
    a key is kept, later ones with the same key are dropped, order preserved"""
    C = {"traces.geometry.values": "traces", "set()": "[]", "dumps(geom, rounding_precision=int(-math.log10(snap_threshold)))": "(key geom)",
         "traces.iloc[idxs_to_keep]": "(List.filterMap (fun i => traces[i]?) idxs_to_keep)"}
    T = {"traces.geometry.values": "List G", "set()": "List K", "traces_set": "List K", "idxs_to_keep": "List Nat",
         "dumps(geom, rounding_precision=int(-math.log10(snap_threshold)))": "K", "geom_wkt": "K", "traces.iloc[idxs_to_keep]": "List G", "unique_traces": "List G",
         "filter_count": "Nat"}
    return translate_function(
        S[BAN], "filter_non_unique_traces", "filter_non_unique_traces", {"traces": "List G"}, "List G", C, types=T,
        extra_params=[("{G}", "Type"), ("{K}", "Type"), ("[BEq K]", ""), ("key", "G → K")], slice_from="traces_set = set()", default_num="Nat", join="tuple", nat_sub=True)


def b_run_validation(S):
    """the frame-level plumbing of `Validation.run_validation` around the row loop (which item ValidationPass regenerates): dropping stale
    error columns, MAJOR validators in the first pass / ALL in the second unless validators were chosen, the empty-frame exit, the
    empty-target-area exit (only when `allow_empty_area` is off), the pass, the recursion for the second pass on the geometries of the
    first (its own `allow_empty_area` left at the default), the result. The row loop, the recursive call and `is_empty_area` are parameters."""
    src0 = S[TVAL]
    subs = [
        (r"\bself\.traces\b", "self_traces"),
        (r"self\.determine_validation_nodes = ", "determine_validation_nodes = "),
        (r"    all_errors: List\[List\[str\]\] = \[\]\n(?:.*\n)*?        all_geoms\.append\(geom\)\n", "    all_errors, all_geoms = PASS\n"),
        (r"    validated_gdf = self_traces\.copy\(\)\n    validated_gdf\[self\.ERROR_COLUMN\] = all_errors\n    validated_gdf\[self\.GEOMETRY_COLUMN\] = all_geoms\n", "    validated_gdf = VALIDATED\n"),
        # between the passes: the fixed frame becomes self.traces and the object's caches are reset (the caches are modelled by item ValidationCaches, which checks
        # that exactly these five are reset here)
        (r"        self_traces = validated_gdf\n(?:        #.*\n)*(?:        self\._(?:endpoint_nodes|intersect_nodes|spatial_index|faulty_junctions|vnodes) = None\n){5}        # Run validation again\n        validated_gdf = self\.run_validation\(\n            first_pass=False, choose_validators=choose_validators\n        \)\n", "        validated_gdf = RECUR\n"),
        (r"    validated_gdf\[self\.ERROR_COLUMN\] = \[\n        tuple\(value\) for value in validated_gdf\[self\.ERROR_COLUMN\]\.values\n    \]\n", ""),
        (r"        empty_gdf: gpd\.GeoDataFrame = self_traces\.copy\(\)\n        return empty_gdf\n", "        return UNTOUCHED\n"),
        (r"        empty_gdf: gpd\.GeoDataFrame = self_traces\.copy\(\)\n(?:        #.*\n)*        empty_gdf\[self\.ERROR_COLUMN\] = \[\n            \(trace_validators\.EmptyTargetAreaValidator\.ERROR,\)\n        \] \* empty_gdf\.shape\[0\]\n        return empty_gdf\n", "        return EMPTYAREA\n"),
    ]
    txt = standalone(src0, "Validation.run_validation")
    for pat, rep in subs:
        txt, n = re.subn(pat, rep, txt)
        if n < 1:
            raise Untranslatable(f"run_validation: rewriting step did not apply: {pat[:60]}")
    for marker in ("PASS", "VALIDATED", "RECUR", "UNTOUCHED", "EMPTYAREA"):
        if len(re.findall(r"\b" + marker + r"\b", txt)) != 1:
            raise Untranslatable(f"run_validation: marker {marker} does not occur exactly once after rewriting")
    if "self.run_validation" in txt or re.search(r"self_traces = (?!traces\b)", txt):
        raise Untranslatable("run_validation: an assignment to self.traces or a recursive call survived the rewriting")
    ROWS = "List (G × List String)"
    C = {
        "(self.ERROR_COLUMN, self.ERROR_COLUMN_TRUNC)": "[err_column, err_column_trunc]",
        "err_col in self_traces.columns": "(has_col err_col)",
        "self_traces.drop(columns=err_col)": "self_traces",
        "MAJOR_VALIDATORS": "major", "ALL_VALIDATORS": "all_",
        "any((validator in VALIDATION_REQUIRES_NODES for validator in validators))": "(List.any validators requires_nodes)",
        "self_traces.shape[0]": "(List.length self_traces)",
        "is_empty_area(area=self.area, traces=self_traces)": "(area_empty self_traces)",
        "UNTOUCHED": "(\"untouched\", List.map (fun g => (g, [])) self_traces)",
        "EMPTYAREA": "(\"emptyarea\", List.map (fun g => (g, [empty_err])) self_traces)",
        "PASS": "(pass_ validators self_traces)",
        "VALIDATED": "(\"validated\", List.zip all_geoms all_errors)",
        "RECUR": "(recur all_geoms)",
    }
    T = {"(self.ERROR_COLUMN, self.ERROR_COLUMN_TRUNC)": "List String", "err_col": "String", "err_col in self_traces.columns": "Bool", "self_traces.drop(columns=err_col)": "List G",
         "traces": "List G", "MAJOR_VALIDATORS": "List V", "ALL_VALIDATORS": "List V", "validators": "List V",
         "any((validator in VALIDATION_REQUIRES_NODES for validator in validators))": "Bool", "determine_validation_nodes": "Bool", "self_traces.shape[0]": "Nat",
         "is_empty_area(area=self.area, traces=self_traces)": "Bool", "UNTOUCHED": f"String × {ROWS}", "EMPTYAREA": f"String × {ROWS}",
         "PASS": "List (List String) × List G", "all_errors": "List (List String)", "all_geoms": "List G", "VALIDATED": f"String × {ROWS}", "validated_gdf": f"String × {ROWS}",
         "RECUR": f"String × {ROWS}"}
    return translate_function(
        txt, "run_validation", "run_validation_frame",
        {"self_traces": "List G", "first_pass": "Bool", "choose_validators": "Option (List V)", "allow_empty_area": "Bool"}, f"String × {ROWS}", C, types=T,
        extra_params=[("{G}", "Type"), ("{V}", "Type"), ("err_column", "String"), ("err_column_trunc", "String"), ("has_col", "String → Bool"), ("major", "List V"), ("all_", "List V"),
                      ("requires_nodes", "V → Bool"), ("area_empty", "List G → Bool"), ("empty_err", "String"), ("pass_", "List V → List G → List (List String) × List G"),
                      ("recur", f"List G → String × {ROWS}")],
        slice_from="for err_col in", default_num="Nat", join="tuple")


def b_validator_methods(S):
    """`StackedTracesValidator.validation_method` (no candidates; neighbour set = LineString candidates whose buffer of radius t·o·m meets the trace;
    alongside test on that set; small-triangle test against EVERY candidate), `MultipleCrosscutValidator.validation_method` (more than two
    intersection points with one candidate) and `SimpleGeometryValidator.validation_method`."""
    src = standalone(S[TVALS], "StackedTracesValidator.validation_method", [(r"\n    splitter_trace: LineString\n", "\n")])
    fn = find_func(ast.parse(src), "validation_method")
    calls = {ast.unparse(n.func): n for n in ast.walk(fn) if isinstance(n, ast.Call) and ast.unparse(n.func) in ("segment_within_buffer", "split_to_determine_triangle_errors")}
    c1, c2 = calls.get("segment_within_buffer"), calls.get("split_to_determine_triangle_errors")
    if c1 is None or [ast.unparse(a) for a in c1.args] != ["geom", "trace_candidates_multils"] or {k.arg: ast.unparse(k.value) for k in c1.keywords} != {
            "snap_threshold": "snap_threshold", "snap_threshold_error_multiplier": "snap_threshold_error_multiplier", "overlap_detection_multiplier": "overlap_detection_multiplier",
            "stacked_detector_buffer_multiplier": "stacked_detector_buffer_multiplier"}:
        raise Untranslatable("StackedTracesValidator: call of segment_within_buffer changed")
    if c2 is None or [ast.unparse(a) for a in c2.args] != ["geom", "splitter_trace"] or {k.arg: ast.unparse(k.value) for k in c2.keywords} != {
            "snap_threshold": "snap_threshold", "triangle_error_snap_multiplier": "triangle_error_snap_multiplier"}:
        raise Untranslatable("StackedTracesValidator: call of split_to_determine_triangle_errors changed")
    t1, t2 = ast.get_source_segment(src, c1), ast.get_source_segment(src, c2)
    C = {"trace_candidates.geometry.values": "trace_candidates",
         "MultiLineString([tc for tc in trace_candidates.geometry.values if isinstance(tc, LineString) and tc.buffer(snap_threshold * overlap_detection_multiplier * snap_threshold_error_multiplier).intersects(geom)])":
             "(List.filter (fun tc => is_ls tc && near_buffer tc (snap_threshold * overlap_detection_multiplier * snap_threshold_error_multiplier) geom) trace_candidates)",
         t1: "(alongside geom trace_candidates_multils)", t2: "(triangle geom splitter_trace)"}
    T = {"trace_candidates.geometry.values": "List L", t1: "Bool", t2: "Bool", "trace_candidates_multils": "List L",
         "MultiLineString([tc for tc in trace_candidates.geometry.values if isinstance(tc, LineString) and tc.buffer(snap_threshold * overlap_detection_multiplier * snap_threshold_error_multiplier).intersects(geom)])": "List L"}
    out = translate_function(
        src, "validation_method", "stacked_validation",
        {"geom": "L", "trace_candidates": "List L", "snap_threshold": "Rat", "snap_threshold_error_multiplier": "Rat", "overlap_detection_multiplier": "Rat"}, "Bool", C, types=T,
        extra_params=[("{L}", "Type"), ("is_ls", "L → Bool"), ("near_buffer", "L → Rat → L → Bool"), ("alongside", "L → List L → Bool"), ("triangle", "L → L → Bool")],
        slice_from="if len(trace_candidates) == 0", default_num="Rat", join="tuple")
    src2 = standalone(S[TVALS], "MultipleCrosscutValidator.validation_method")
    C = {"any(trace_candidates.intersects(geom))": "(List.any trace_candidates (fun tc => meets tc geom))", "trace_candidates.intersection(geom)": "(List.map (fun tc => inter_points tc geom) trace_candidates)",
         "any((len(list(geom.geoms)) > 2 for geom in intersection_geoms if isinstance(geom, MultiPoint)))": "(List.any intersection_geoms (fun g => match g with | some n => decide (n > 2) | none => false))"}
    T = {"any(trace_candidates.intersects(geom))": "Bool", "trace_candidates.intersection(geom)": "List (Option Nat)", "intersection_geoms": "List (Option Nat)",
         "any((len(list(geom.geoms)) > 2 for geom in intersection_geoms if isinstance(geom, MultiPoint)))": "Bool"}
    out += "\n" + translate_function(
        src2, "validation_method", "crosscut_validation", {"geom": "L", "trace_candidates": "List L"}, "Bool", C, types=T,
        extra_params=[("{L}", "Type"), ("meets", "L → L → Bool"), ("inter_points", "L → L → Option Nat")], slice_from="if not any(trace_candidates.intersects", default_num="Nat", join="tuple")
    src3 = standalone(S[TVALS], "SimpleGeometryValidator.validation_method")
    out += "\n" + translate_function(
        src3, "validation_method", "simple_geometry_validation", {}, "Bool", {"geom.is_simple": "is_simple", "geom.is_ring": "is_ring"},
        types={"geom.is_simple": "Bool", "geom.is_ring": "Bool"}, extra_params=[("is_simple", "Bool"), ("is_ring", "Bool")], slice_from="return geom.is_simple", default_num="Nat")
    return out


def b_grid_sampling(S):
    """`run_grid_sampling`: empty trace frame -> empty result; a COPY of a precursor grid (`copy_`, an explicit parameter) is used as is (TypeError when it is not a frame); otherwise the
    cell width must be a positive number not close to zero (ValueError) and the grid is created over the BRANCHES when there are any, else over the traces;
    then the cells are sampled."""
    src = S[GRID]
    C = {"traces.empty": "(List.isEmpty traces)", "gpd.GeoDataFrame()": "empty_result", "isinstance(precursor_grid, gpd.GeoDataFrame)": "(is_frame precursor_grid)",
         "precursor_grid.copy()": "(copy_ (precursor_grid.getD dflt))", "np.isclose(cell_width, 0.0)": "(isclose0 cell_width)", "branches.shape[0]": "(List.length branches)",
         "create_grid(cell_width, lines=lines)": "(create_grid_ cell_width lines)",
         "sample_grid(grid, traces, nodes, branches=branches, snap_threshold=snap_threshold, resolve_branches_and_nodes=resolve_branches_and_nodes)": "(sample_ grid)"}
    T = {"traces.empty": "Bool", "gpd.GeoDataFrame()": "R", "isinstance(precursor_grid, gpd.GeoDataFrame)": "Bool", "precursor_grid.copy()": "Gr", "grid": "Gr",
         "np.isclose(cell_width, 0.0)": "Bool", "branches.shape[0]": "Nat", "is_topology_defined": "Bool", "lines": "List L", "create_grid(cell_width, lines=lines)": "Gr",
         "sample_grid(grid, traces, nodes, branches=branches, snap_threshold=snap_threshold, resolve_branches_and_nodes=resolve_branches_and_nodes)": "R", "sampled_grid": "R"}
    return translate_function(
        src, "run_grid_sampling", "run_grid_sampling", {"traces": "List L", "branches": "List L", "cell_width": "Rat", "precursor_grid": "Option Gr"}, "R", C, types=T, raises=True,
        extra_params=[("{L}", "Type"), ("{Gr}", "Type"), ("{R}", "Type"), ("empty_result", "R"), ("is_frame", "Option Gr → Bool"), ("dflt", "Gr"), ("copy_", "Gr → Gr"), ("isclose0", "Rat → Bool"),
                      ("create_grid_", "Rat → List L → Gr"), ("sample_", "Gr → R")],
        slice_from="if traces.empty", default_num="Rat", join="tuple")


def b_intersects_loop(S):
    """the node loop of `determine_intersects`: per X/Y node whether it touches the traces of either set; a node touching neither is a ValueError;
    `determine_intersect` decides the ordered pair, and when IT raises the node is recorded with the unordered pair and error=True; one row per node."""
    src0 = S[REL]
    fn = find_func(ast.parse(src0), "determine_intersects")
    calls = [n for n in ast.walk(fn) if isinstance(n, ast.Call) and ast.unparse(n.func) == "determine_intersect"]
    want = {"node": "node", "node_class": "node_class", "l1": "l1", "l2": "l2", "first_set": "first_set", "second_set": "second_set", "first_setpointtree": "first_setpointtree",
            "buffer_value": "buffer_value"}
    if len(calls) != 1 or calls[0].args or {k.arg: ast.unparse(k.value) for k in calls[0].keywords} != want:
        raise Untranslatable("determine_intersects: call of determine_intersect changed")
    dicts = [n for n in ast.walk(fn) if isinstance(n, ast.Assign) and ast.unparse(n.targets[0]) == "addition" and isinstance(n.value, ast.Dict)]
    if len(dicts) != 1 or {ast.literal_eval(k): ast.unparse(v) for k, v in zip(dicts[0].value.keys, dicts[0].value.values)} != {
            "node": "node", "nodeclass": "node_class", "sets": "set_names_two_sets", "error": "True"}:
        raise Untranslatable("determine_intersects: the error row changed")
    src = standalone(src0, "determine_intersects", [
        (r"addition = \{\n\s*\"node\": node,\n\s*\"nodeclass\": node_class,\n\s*\"sets\": set_names_two_sets,\n\s*\"error\": True,\n\s*\}", "addition = ERRORROW"),
        (r"\n    node: Point\n    node_class: str\n", "\n"),
    ])
    if len(re.findall(r"\bERRORROW\b", src)) != 1:
        raise Untranslatable("determine_intersects: rewriting of the error row failed")
    ctxt = ast.get_source_segment(src0, calls[0])
    import textwrap
    ctxt_d = re.sub(r"\s+", " ", ctxt)
    C = {"zip(node_series_xy_intersects, node_types_xy_intersects)": "(List.zip node_series_xy_intersects node_types_xy_intersects)",
         "first_set_prep.intersects(node.buffer(buffer_value))": "(touches1 node)", "second_set_prep.intersects(node.buffer(buffer_value))": "(touches2 node)",
         "ERRORROW": "(node, node_class, set_names_two_sets, true)"}
    T = {"zip(node_series_xy_intersects, node_types_xy_intersects)": "List (N × String)", "first_set_prep.intersects(node.buffer(buffer_value))": "Bool",
         "second_set_prep.intersects(node.buffer(buffer_value))": "Bool", "l1": "Bool", "l2": "Bool", "ERRORROW": "N × String × (String × String) × Bool",
         "addition": "N × String × (String × String) × Bool", "additions": "List (N × String × (String × String) × Bool)", "node": "N", "node_class": "String"}
    # the call of determine_intersect: an Option-valued oracle (none = it raised ValueError) giving the whole row
    fn2 = find_func(ast.parse(src), "determine_intersects")
    call2 = [n for n in ast.walk(fn2) if isinstance(n, ast.Call) and ast.unparse(n.func) == "determine_intersect"][0]
    t2 = ast.get_source_segment(src, call2)
    C[t2] = "(Option.map (fun sets => (node, node_class, sets, false)) (intersect_ node node_class l1 l2))"
    T[t2] = "Option (N × String × (String × String) × Bool)"
    return translate_function(
        src, "determine_intersects", "determine_intersects_rows", {"set_names_two_sets": "String × String", "node_series_xy_intersects": "List N", "node_types_xy_intersects": "List String"},
        "List (N × String × (String × String) × Bool)", C, types=T, raises=True,
        extra_params=[("{N}", "Type"), ("touches1", "N → Bool"), ("touches2", "N → Bool"), ("intersect_", "N → String → Bool → Bool → Option (String × String)")],
        slice_from="additions = []", slice_to="additions_df = pd.DataFrame(additions)", returns_var="additions", default_num="Nat", join="tuple")


def b_network_init(S):
    """`Network.__post_init__` (the second entry route to the topology): the two ValueErrors about the inputs, optional removal of z-coordinates, cropping of
    the traces when `truncate_traces` (multi-part input allowed only when no topology is asked for), the ValueError for an empty crop, and which traces /
    which `already_clipped` flag `assign_branches_nodes` hands to `branches_and_nodes` (checked argument by argument) -- or that given branches / nodes are used."""
    src0 = S[NETWORK]
    cls = find_func(ast.parse(src0), "Network")
    abn = find_func(ast.parse(src0), "Network.assign_branches_nodes")
    calls = [n for n in ast.walk(abn) if isinstance(n, ast.Call) and ast.unparse(n.func) == "branches_and_nodes"]
    want = {"traces": "self.trace_gdf", "areas": "self.area_gdf", "snap_threshold": "self.snap_threshold", "already_clipped": "self.truncate_traces"}
    if len(calls) != 1 or calls[0].args or {k.arg: ast.unparse(k.value) for k in calls[0].keywords} != want:
        raise Untranslatable("assign_branches_nodes: call of branches_and_nodes changed")
    guard = [n for n in abn.body if isinstance(n, ast.If)]
    if not guard or ast.unparse(guard[0].test) != "branches is None or nodes is None":
        raise Untranslatable("assign_branches_nodes: the guard of the computation changed")
    subs = [
        (r"\bself\.(\w+)", r"self_\1"),
        (r"trace_gdf_without_z_coords = remove_z_coordinates_from_geodata\(\n\s*geodata=self_trace_gdf\n\s*\)\n\s*assert isinstance\(trace_gdf_without_z_coords, gpd\.GeoDataFrame\)\n\s*self_trace_gdf = trace_gdf_without_z_coords\n",
         "self_trace_gdf = remove_z_coordinates_from_geodata(geodata=self_trace_gdf)\n"),
        (r"    self_trace_data = LineData\((?:.*\n)*?    \)\n", ""),
        (r"        self_trace_gdf\.reset_index\(inplace=True, drop=True\)\n", ""),
        (r"        self_assign_branches_nodes\(\)\n", "        call = COMPUTED\n"),
        (r"        self_assign_branches_nodes\(branches=self_branch_gdf, nodes=self_node_gdf\)\n", "        call = GIVEN\n"),
        (r"    log\.info\(\n        \"Created and initialized Network instance\.\",\n(?:.*\n)*?    \)\s*$", "    return (self_trace_gdf, call)\n"),
        (r"    empty_branches_and_nodes = ", "    call = NOCALL\n    empty_branches_and_nodes = "),
    ]
    txt = standalone(src0, "Network.__post_init__")
    for pat, rep in subs:
        txt, n = re.subn(pat, rep, txt)
        if n < 1:
            raise Untranslatable(f"Network.__post_init__: rewriting step did not apply: {pat[:50]}")
    for marker in ("COMPUTED", "GIVEN", "NOCALL"):
        if len(re.findall(r"\b" + marker + r"\b", txt)) != 1:
            raise Untranslatable(f"Network.__post_init__: marker {marker} not exactly once")
    CALL = "Option (Option (List G × Bool))"
    C = {
        "self_area_gdf.empty or self_area_gdf.geometry.iloc[0].is_empty": "(area_is_empty self_area_gdf)",
        "self_trace_gdf.copy()": "(copy_ self_trace_gdf)", "self_area_gdf.copy()": "self_area_gdf", "self_branch_gdf.copy()": "self_branch_gdf", "self_node_gdf.copy()": "self_node_gdf",
        "check_for_z_coordinates(geodata=self_trace_gdf)": "(has_z self_trace_gdf)",
        "remove_z_coordinates_from_geodata(geodata=self_trace_gdf)": "(drop_z self_trace_gdf)",
        "gpd.GeoDataFrame(crop_to_target_areas(self_trace_gdf, self_area_gdf, keep_column_data=True, allow_multilinestring_input=not self_determine_branches_nodes))":
            "(crop_ self_trace_gdf self_area_gdf (!self_determine_branches_nodes))",
        "self_trace_gdf.shape[0]": "(List.length self_trace_gdf)",
        "self_branch_gdf.empty and self_node_gdf.empty": "(no_topology_given)",
        "NOCALL": "none", "COMPUTED": "(some (some (self_trace_gdf, self_truncate_traces)))", "GIVEN": "(some none)",
    }
    T = {"self_area_gdf.empty or self_area_gdf.geometry.iloc[0].is_empty": "Bool", "self_trace_gdf.copy()": "List G", "self_area_gdf.copy()": "A", "self_branch_gdf.copy()": "Unit",
         "self_node_gdf.copy()": "Unit", "self_branch_gdf": "Unit", "self_node_gdf": "Unit", "check_for_z_coordinates(geodata=self_trace_gdf)": "Bool", "has_z_coordinates": "Bool",
         "remove_z_coordinates_from_geodata(geodata=self_trace_gdf)": "List G", "trace_gdf_without_z_coords": "List G",
         "gpd.GeoDataFrame(crop_to_target_areas(self_trace_gdf, self_area_gdf, keep_column_data=True, allow_multilinestring_input=not self_determine_branches_nodes))": "List G",
         "self_trace_gdf.shape[0]": "Nat", "self_branch_gdf.empty and self_node_gdf.empty": "Bool", "empty_branches_and_nodes": "Bool", "self_topology_determined": "Bool",
         "NOCALL": CALL, "COMPUTED": CALL, "GIVEN": CALL, "call": CALL}
    return translate_function(
        txt, "__post_init__", "network_init",
        {"self_trace_gdf": "List G", "self_area_gdf": "A", "self_truncate_traces": "Bool", "self_circular_target_area": "Bool", "self_determine_branches_nodes": "Bool",
         "self_remove_z_coordinates_from_inputs": "Bool", "self_branch_gdf": "Unit", "self_node_gdf": "Unit"},
        f"List G × {CALL}", C, types=T, raises=True,
        extra_params=[("{G}", "Type"), ("{A}", "Type"), ("area_is_empty", "A → Bool"), ("copy_", "List G → List G"), ("has_z", "List G → Bool"), ("drop_z", "List G → List G"),
                      ("crop_", "List G → A → Bool → List G"), ("no_topology_given", "Bool")],
        slice_from="self_topology_determined = False", default_num="Nat", join="tuple")


def b_determine_intersect(S):
    """`determine_intersect`: which ordered pair of sets an X/Y node between two sets is recorded under, or ValueError"""
    fn = find_func(ast.parse(S[REL]), "determine_intersect")
    dicts = [n for n in ast.walk(fn) if isinstance(n, ast.Assign) and ast.unparse(n.targets[0]) == "addition"]
    for d in dicts:
        if not isinstance(d.value, ast.Dict) or {ast.literal_eval(k): ast.unparse(v) for k, v in zip(d.value.keys, d.value.values)} != {
                "node": "node", "nodeclass": "node_class", "sets": "sets", "error": "False"}:
            raise Untranslatable("determine_intersect: result dict is not {node, nodeclass, sets, error: False}")
    if len(dicts) != 2:
        raise Untranslatable(f"determine_intersect: expected 2 result dicts, found {len(dicts)}")
    src = standalone(S[REL], "determine_intersect", [(r"addition = \{[^}]*\}", "pass"), (r"return addition", "return sets")])
    return translate_function(
        src, "determine_intersect", "determine_intersect",
        {"node_class": "String", "l1": "Bool", "l2": "Bool", "first_set": "String", "second_set": "String"}, "String × String",
        {"first_setpointtree.intersects(node.buffer(buffer_value))": "p1_query"},
        types={"first_setpointtree.intersects(node.buffer(buffer_value))": "Bool", "p1": "Bool", "sets": "String × String"},
        raises=True, extra_params=[("p1_query", "Bool")], slice_from='if node_class == "X"', join="tuple")


def b_relationship_loop(S):
    """the loop of `determine_crosscut_abutting_relationships` over all pairs of sets: the skip of pairs with an empty set, the
    reading of the grouped counts into x / y / y-reverse, one row per remaining pair. The pandas / GEOS part of a pair (which
    nodes touch both sets, how they are classified, the grouped counts, the error count) is a parameter."""
    src0 = S[REL]
    q = "determine_crosscut_abutting_relationships"
    fn = find_func(ast.parse(src0), q)
    dicts = [n for n in ast.walk(fn) if isinstance(n, ast.Assign) and ast.unparse(n.targets[0]) == "addition" and isinstance(n.value, ast.Dict)]
    want = {"name": "label", "sets": "(first_set, second_set)", "x": "x_count", "y": "y_count", "y-reverse": "y_reverse_count",
            "error-count": "len(intersectframe.loc[intersectframe.error])"}
    if len(dicts) != 1 or {ast.literal_eval(k): ast.unparse(v) for k, v in zip(dicts[0].value.keys, dicts[0].value.values)} != want:
        raise Untranslatable("relationship row dict changed")
    src = standalone(src0, q, [(r"addition = \{[^}]*\}", "addition = (label, (first_set, second_set), x_count, y_count, y_reverse_count, ERRCOUNT)")])
    tst = "trace_series_two_sets: Tuple[gpd.GeoSeries, gpd.GeoSeries] = (trace_series.loc[set_array == first_set], trace_series.loc[set_array == second_set])"
    f2 = find_func(ast.parse(src), q)
    loop = [st for st in f2.body if isinstance(st, ast.For)]
    if len(loop) != 1 or ast.unparse(loop[0].iter) != "set_combinations" or ast.unparse(loop[0].body[0]) != tst:
        raise Untranslatable("pair loop / selection of the two sets' traces changed")
    pre = {ast.unparse(st.targets[0]): ast.unparse(st.value) for st in f2.body if isinstance(st, ast.Assign) and len(st.targets) == 1}
    if pre.get("set_combinations") != "combinations(set_names, 2)":
        raise Untranslatable("set_combinations is not combinations(set_names, 2)")
    k1 = _kwcall(src, q, "determine_nodes_intersecting_sets", {"trace_series_two_sets": "trace_series_two_sets", "set_names_two_sets": "set_names_two_sets",
                                                                "node_series_xy": "node_series_xy", "buffer_value": "buffer_value"})
    k2 = _kwcall(src, q, "determine_intersects", {"trace_series_two_sets": "trace_series_two_sets", "node_series_xy_intersects": "node_series_xy_intersects",
                                                   "node_types_xy_intersects": "node_types_xy_intersects", "set_names_two_sets": "set_names_two_sets",
                                                   "buffer_value": "buffer_value"})
    C = dict(gconsts(S))
    C.update({
        "combinations(set_names, 2)": "(pyCombinations2 set_names)",
        "(trace_series.loc[set_array == first_set], trace_series.loc[set_array == second_set])": "()",
        "any(series.shape[0] == 0 for series in trace_series_two_sets)": "(!(nonEmpty first_set) || !(nonEmpty second_set))",
        "(first_set, second_set)": "(first_set, second_set)", "(second_set, first_set)": "(second_set, first_set)",
        k1: "()", "node_series_xy.loc[intersects_both_sets]": "()", "node_types_xy[intersects_both_sets]": "()", k2: "()",
        "intersectframe.groupby(['nodeclass', 'sets']).size()": "()",
        "list(intersect_series.items())": "(items first_set second_set)",
        "item[1]": "item.2", "item[0][0]": "item.1.1", "item[0][1]": "item.1.2",
        "ERRCOUNT": "(errcount first_set second_set)",
    })
    unit = ["(trace_series.loc[set_array == first_set], trace_series.loc[set_array == second_set])", k1, "node_series_xy.loc[intersects_both_sets]",
            "node_types_xy[intersects_both_sets]", k2, "intersectframe.groupby(['nodeclass', 'sets']).size()"]
    T = {u: "Unit" for u in unit}
    T.update({"set_combinations": "List (String × String)", "combinations(set_names, 2)": "List (String × String)", "any(series.shape[0] == 0 for series in trace_series_two_sets)": "Bool",
              "(first_set, second_set)": "String × String", "(second_set, first_set)": "String × String",
              "list(intersect_series.items())": "List ((String × (String × String)) × Nat)", "item[1]": "Nat", "item[0][0]": "String", "item[0][1]": "String × String",
              "value": "Nat", "x_count": "Nat", "y_count": "Nat", "y_reverse_count": "Nat", "ERRCOUNT": "Nat",
              "additions": "List (String × (String × String) × Nat × Nat × Nat × Nat)", "addition": "String × (String × String) × Nat × Nat × Nat × Nat",
              "trace_series_two_sets": "Unit", "set_names_two_sets": "String × String", "intersects_both_sets": "Unit", "node_series_xy_intersects": "Unit",
              "node_types_xy_intersects": "Unit", "intersectframe": "Unit", "intersect_series": "Unit"})
    return translate_function(
        src, q, "relationship_rows",
        {"set_names": "List String", "label": "String"}, "List (String × (String × String) × Nat × Nat × Nat × Nat)", C, types=T, raises=True,
        extra_params=[("nonEmpty", "String → Bool"), ("items", "String → String → List ((String × (String × String)) × Nat)"), ("errcount", "String → String → Nat")],
        slice_from="if len(set_names) < 2", slice_to="additions_df =", returns_var="additions", default_num="Nat", join="tuple")


def b_snap_driver(S):
    """the snapping stage of `branches_and_nodes`: first pass, then `while any_changes_applied:` pass again, count, and let
    `report_snapping_loop` raise when more passes were needed than allowed. One pass (`snap_traces`) is a parameter; the two call
    sites must pass the same traces / threshold / areas (checked argument by argument through the exact call texts)."""
    rfn = find_func(ast.parse(S[BAN]), "report_snapping_loop")
    cond = [n for n in ast.walk(rfn) if isinstance(n, ast.If) and any(isinstance(b, ast.Raise) for b in n.body)]
    if len(cond) != 1 or ast.unparse(cond[0].test) != "loops > allowed_loops" or "RecursionError" not in ast.unparse(cond[0].body[0]):
        raise Untranslatable("report_snapping_loop does not raise RecursionError iff loops > allowed_loops")
    C = {"snap_traces(traces_list, snap_threshold, areas=areas_list)": "(pass_ traces_list)",
         "snap_traces(traces_list, snap_threshold, final_allowed_loop=loops == allowed_loops, areas=areas_list)": "(pass_ traces_list)"}
    T = {k: "T × Bool" for k in C}
    T.update({"loops": "Nat", "traces_list": "T", "any_changes_applied": "Bool"})
    return translate_function(
        S[BAN], "branches_and_nodes", "snap_driver", {"traces_list": "T", "allowed_loops": "Nat", "fuel": "Nat"}, "T × Nat", C, types=T, raises=True,
        extra_params=[("{T}", "Type"), ("pass_", "T → T × Bool")], slice_from="loops = 0", slice_to="traces_geosrs = gpd.GeoSeries(traces_list",
        returns_var="(traces_list, loops)", default_num="Nat", join="tuple",
        raisers={"report_snapping_loop(loops, allowed_loops=allowed_loops)": ("(decide (loops > allowed_loops))", "RecursionError")})


def b_validation_pass(S):
    """the two nested loops of `Validation.run_validation` (rows x validators, `if ignore_geom: break`, the hand-over of geometry /
    errors / ignore flag from one validator to the next, the collection of errors and geometries); `_validate` is a parameter"""
    src = S[TVAL]
    q = "Validation.run_validation"
    fn = find_func(ast.parse(src), q)
    calls = [n for n in ast.walk(fn) if isinstance(n, ast.Call) and ast.unparse(n.func) == "self._validate"]
    if len(calls) != 1:
        raise Untranslatable("expected one call of self._validate")
    kw = {k.arg: ast.unparse(k.value) for k in calls[0].keywords}
    for need, val in (("geom", "geom"), ("validator", "validator"), ("current_errors", "current_errors"), ("allow_fix", "self.allow_fix"), ("idx", "idx"),
                      ("trace_candidates", "trace_candidates"), ("area", "self.area")):
        if kw.get(need) != val:
            raise Untranslatable(f"_validate is called with {need}={kw.get(need)}")
    vtxt = ast.get_source_segment(src, calls[0])
    # the trace-candidate cache: computed once per row, only for non-empty lines
    tc = [n for n in ast.walk(fn) if isinstance(n, ast.Assign) and ast.unparse(n.targets[0]) == "trace_candidates" and isinstance(n.value, ast.IfExp)]
    if len(tc) != 1 or ast.unparse(tc[0].value.test) != "trace_candidates is None" or ast.unparse(tc[0].value.orelse) != "trace_candidates":
        raise Untranslatable("trace candidate cache changed")
    tctxt = ast.get_source_segment(src, tc[0].value)
    C = {"self.traces.geometry.values": "geoms", vtxt: "(validate_ validator geom current_errors idx)",
         "isinstance(geom, LineString) and not geom.is_empty": "(is_line geom)", tctxt: "()", "None": "()"}
    T = {"self.traces.geometry.values": "List G", vtxt: "G × (List String) × Bool", "geom": "G", "current_errors": "List String", "ignore_geom": "Bool",
         "isinstance(geom, LineString) and not geom.is_empty": "Bool", tctxt: "Unit", "trace_candidates": "Unit", "None": "Unit",
         "all_errors": "List (List String)", "all_geoms": "List G", "validators": "List V"}
    return translate_function(
        src, q, "validation_pass", {"geoms": "List G", "validators": "List V"}, "List (List String) × List G", C, types=T,
        extra_params=[("{G}", "Type"), ("{V}", "Type"), ("validate_", "V → G → List String → Nat → G × (List String) × Bool"), ("is_line", "G → Bool")],
        slice_from="all_errors: List[List[str]] = []", slice_to="assert len(all_errors) == len(all_geoms)", returns_var="(all_errors, all_geoms)",
        default_num="Nat", join="tuple")


def b_validate_step(S):
    """`Validation._validate`: the per-(row, validator) decision; what the validator answers and what its fix returns are parameters"""
    C = {
        "validator.LINESTRING_ONLY": "ls_only",
        "isinstance(geom, LineString)": "is_ls",
        "geom.is_empty": "is_empty",
        "isinstance(geom, MultiLineString)": "is_mls",
        "validator.validation_method(geom=geom, **kwargs)": "valid",
        "validator.fix_method(geom=geom, **kwargs)": "fix",
        "validator.ERROR": "err",
        "MAJOR_ERRORS": "major_errors",
    }
    T = {"validator.LINESTRING_ONLY": "Bool", "isinstance(geom, LineString)": "Bool", "geom.is_empty": "Bool", "isinstance(geom, MultiLineString)": "Bool",
         "validator.validation_method(geom=geom, **kwargs)": "Bool", "validator.fix_method(geom=geom, **kwargs)": "Option G", "validator.ERROR": "String",
         "MAJOR_ERRORS": "List String", "ignore_geom": "Bool", "fixed": "Option G"}
    return translate_function(
        S[TVAL], "Validation._validate", "validate_step",
        {"geom": "G", "current_errors": "List String", "allow_fix": "Bool"}, "G × List String × Bool", C, types=T,
        extra_params=[("{G}", "Type"), ("ls_only", "Bool"), ("is_ls", "Bool"), ("is_empty", "Bool"), ("is_mls", "Bool"), ("valid", "Bool"), ("fix", "Option G"),
                      ("err", "String"), ("major_errors", "List String")],
        slice_from="ignore_geom = False", default_num="Nat", join="tuple")


def standalone(source, qual, subs=()):
    """source text of method/function `qual` as a top-level function (dedented, decorators dropped) after regex substitutions"""
    import textwrap

    fn = find_func(ast.parse(source), qual)
    lines = source.split("\n")[fn.lineno - 1: fn.end_lineno]
    txt = textwrap.dedent("\n".join(lines))
    for pat, rep in subs:
        txt = re.sub(pat, rep, txt)
    return txt


def b_underlap_validator(S):
    """`UnderlappingSnapValidator.validation_method`: both loops, the well-snapped skip, the window test, the three writes of the
    class attribute ERROR (threaded as an explicit state value), `return False` after the first hit. Distances, the
    underlap/overlap decision and `overlaps` are parameters."""
    tree = ast.parse(S[TVALS])
    cls = find_func(tree, "UnderlappingSnapValidator")
    under, over = _class_attr(cls, "_UNDERLAPPING"), _class_attr(cls, "_OVERLAPPING")
    stacked = _class_attr(find_func(tree, "StackedTracesValidator"), "ERROR")
    if not all(isinstance(x, ast.Constant) and isinstance(x.value, str) for x in (under, over, stacked)):
        raise Untranslatable("UnderlappingSnapValidator string constants")
    src = standalone(S[TVALS], "UnderlappingSnapValidator.validation_method", [
        (r"\bcls\.ERROR\b", "cls_ERROR"),
        (r"return (True|False)\b", r"return \1, cls_ERROR"),
    ])
    if src.count("cls_ERROR =") != 3 or src.count(", cls_ERROR") != 3:
        raise Untranslatable("UnderlappingSnapValidator: expected 3 writes of cls.ERROR and 3 returns")
    C = {
        "get_trace_endpoints(geom)": "(endpoints_of geom)",
        "any(trace_candidates.distance(endpoint) < snap_threshold)": "(List.any trace_candidates (fun tc => decide (dist tc endpoint < snap_threshold)))",
        "trace_candidates.geometry.values": "trace_candidates",
        "trace.distance(endpoint)": "(dist trace endpoint)",
        "is_underlapping(geom, trace, endpoint, snap_threshold, snap_threshold_error_multiplier)": "(is_ul geom trace endpoint)",
        "geom.overlaps(trace)": "(overlaps geom trace)",
        "StackedTracesValidator.ERROR": '"' + stacked.value + '"',
        "cls._UNDERLAPPING": '"' + under.value + '"',
        "cls._OVERLAPPING": '"' + over.value + '"',
    }
    T = {"get_trace_endpoints(geom)": "List P", "endpoints": "List P", "trace_candidates.geometry.values": "List L", "trace.distance(endpoint)": "Rat",
         "any(trace_candidates.distance(endpoint) < snap_threshold)": "Bool", "geom.overlaps(trace)": "Bool",
         "is_underlapping(geom, trace, endpoint, snap_threshold, snap_threshold_error_multiplier)": "Option Bool", "is_ul_result": "Option Bool",
         "StackedTracesValidator.ERROR": "String", "cls._UNDERLAPPING": "String", "cls._OVERLAPPING": "String", "cls_ERROR": "String"}
    return translate_function(
        src, "validation_method", "underlap_validation",
        {"geom": "L", "trace_candidates": "List L", "snap_threshold": "Rat", "snap_threshold_error_multiplier": "Rat", "cls_ERROR": "String"},
        "Bool × String", C, types=T, raises=True,
        extra_params=[("{L}", "Type"), ("{P}", "Type"), ("endpoints_of", "L → List P"), ("dist", "L → P → Rat"), ("is_ul", "L → L → P → Option Bool"), ("overlaps", "L → L → Bool")],
        slice_from="if len(trace_candidates) == 0", default_num="Rat", join="tuple")


def b_area_validator(S):
    """`TargetAreaSnapValidator`: validation_method (both loops, candidate test, window), is_candidate_underlapping and
    simple_underlapping_checks (the decision chains); GEOS predicates are parameters"""
    cand_call = _kwcall(standalone(S[TVALS], "TargetAreaSnapValidator.validation_method"), "validation_method",
                        "TargetAreaSnapValidator.is_candidate_underlapping", {"snap_threshold": "snap_threshold"}) if False else None
    src = standalone(S[TVALS], "TargetAreaSnapValidator.validation_method")
    fn = find_func(ast.parse(src), "validation_method")
    calls = [n for n in ast.walk(fn) if isinstance(n, ast.Call) and ast.unparse(n.func) == "TargetAreaSnapValidator.is_candidate_underlapping"]
    if len(calls) != 1 or [ast.unparse(a) for a in calls[0].args] != ["endpoint", "geom", "area_polygon"] or {k.arg: ast.unparse(k.value) for k in calls[0].keywords} != {"snap_threshold": "snap_threshold"}:
        raise Untranslatable("call of is_candidate_underlapping changed")
    ctxt = ast.get_source_segment(src, calls[0])
    out = translate_function(
        src, "validation_method", "area_validation",
        {"geom": "L", "area": "List A", "snap_threshold": "Rat", "snap_threshold_error_multiplier": "Rat", "area_edge_snap_multiplier": "Rat"}, "Bool",
        {"get_trace_endpoints(geom)": "(endpoints_of geom)", "area.geometry.values": "area", ctxt: "(candidate endpoint geom area_polygon)",
         "endpoint.distance(area_polygon.boundary)": "(bdist endpoint area_polygon)"},
        types={"get_trace_endpoints(geom)": "List P", "endpoints": "List P", "area.geometry.values": "List A", ctxt: "Bool", "endpoint.distance(area_polygon.boundary)": "Rat"},
        extra_params=[("{L}", "Type"), ("{P}", "Type"), ("{A}", "Type"), ("endpoints_of", "L → List P"), ("candidate", "P → L → A → Bool"), ("bdist", "P → A → Rat")],
        slice_from="endpoints = get_trace_endpoints", default_num="Rat")
    # simple_underlapping_checks -> Option Bool
    src2 = standalone(S[TVALS], "TargetAreaSnapValidator.simple_underlapping_checks")
    out += "\n" + translate_function(
        src2, "simple_underlapping_checks", "simple_underlapping_checks", {}, "Option Bool",
        {"endpoint.within(area_polygon)": "ep_within", "geom.within(area_polygon)": "geom_within",
         "geom.within(scale(area_polygon, xfact=1 + snap_threshold, yfact=1 + snap_threshold))": "geom_within_scaled",
         "False": "(some false)", "True": "(some true)", "None": "none"},
        types={"endpoint.within(area_polygon)": "Bool", "endpoint_within": "Bool", "geom.within(area_polygon)": "Bool",
               "geom.within(scale(area_polygon, xfact=1 + snap_threshold, yfact=1 + snap_threshold))": "Bool"},
        extra_params=[("ep_within", "Bool"), ("geom_within", "Bool"), ("geom_within_scaled", "Bool")], slice_from="endpoint_within =")
    return out


def b_validation_defaults(S):
    tree = ast.parse(S[TVAL])
    cls = find_func(tree, "Validation")
    want = ["SNAP_THRESHOLD", "SNAP_THRESHOLD_ERROR_MULTIPLIER", "AREA_EDGE_SNAP_MULTIPLIER", "TRIANGLE_ERROR_SNAP_MULTIPLIER",
            "OVERLAP_DETECTION_MULTIPLIER", "STACKED_DETECTOR_BUFFER_MULTIPLIER", "SHARP_AVG_THRESHOLD", "SHARP_PREV_SEG_THRESHOLD"]
    out = ""
    for w in want:
        v = _class_attr(cls, w)
        if not isinstance(v, ast.Constant) or not isinstance(v.value, (int, float)):
            raise Untranslatable(f"Validation.{w} default not a literal")
        out += f"def {w} : Rat := {dec_to_rat(ast.get_source_segment(S[TVAL], v))}\n"
    ec = _class_attr(cls, "ERROR_COLUMN")
    out += f'def ERROR_COLUMN : String := "{ec.value}"\n'
    # the candidate window extension passed to determine_trace_candidates
    hits = [n for n in ast.walk(find_func(tree, "Validation.run_validation")) if isinstance(n, ast.keyword) and n.arg == "extend_bounds_by"]
    if len(hits) != 1:
        raise Untranslatable("extend_bounds_by keyword not found in run_validation")
    C = {f"self.{w}": w + "_" for w in want}
    T = {f"self.{w}": "Rat" for w in want}
    P = {"SNAP_THRESHOLD_": "Rat", "SNAP_THRESHOLD_ERROR_MULTIPLIER_": "Rat", "STACKED_DETECTOR_BUFFER_MULTIPLIER_": "Rat"}
    out += "\n/-- window extension passed to determine_trace_candidates, as a function of the thresholds -/\n"
    out += translate_expression(S[TVAL], hits[0].value, "candidate_window_margin", P, "Rat", C, types=T, default_num="Rat")
    return out


def b_index_margins(S):
    """margins of the other spatial-index windows"""
    out = ""
    # boundary candidates: extend_amount = snap_threshold * 100
    hits = find_expressions(S[GENERAL], "determine_boundary_intersecting_lines", r"snap_threshold \* [0-9.]+")
    if len(hits) != 1:
        raise Untranslatable("boundary window margin not found")
    out += translate_expression(S[GENERAL], hits[0], "boundary_window_margin", {"snap_threshold": "Rat"}, "Rat", {}, default_num="Rat")
    out += "\n" + translate_function(S[GENERAL], "extend_bounds", "extend_bounds",
                                      {"min_x": "Rat", "min_y": "Rat", "max_x": "Rat", "max_y": "Rat", "extend_amount": "Rat"}, "Rat × Rat × Rat × Rat", {}, default_num="Rat")
    # proximal traces: buffer_value * 5
    hits = find_expressions(S[PROX], "determine_proximal_traces", r"buffer_value \* [0-9.]+")
    if len(hits) < 1:
        raise Untranslatable("proximal window margin not found")
    out += "\n" + translate_expression(S[PROX], hits[0], "proximal_window_margin", {"buffer_value": "Rat"}, "Rat", {}, default_num="Rat")
    return out


def b_node_junctions(S):
    """whole `determine_node_junctions` (both loops, the removal of the trace's own block, the index shift, the distance mask, the
    error threshold, the marking of the trace and of the owners of the close points); pandas label / position semantics are the
    small prelude functions pySeries / pyLocMask / pyIloc; the spatial index query and the distance are parameters"""
    src = S[GENERAL]
    q = "determine_node_junctions"
    fn = find_func(ast.parse(src), q)
    # flatten_tuples is what the prelude function says it is (shape-checked: owner index per element by bisect over the accumulated lengths)
    ffn = find_func(ast.parse(src), "flatten_tuples")
    ftxt = ast.unparse(ffn)
    for need in ("accumulate([len(val_tuple) for _, val_tuple in enumerate(list_of_tuples)])", "list(chain(*list_of_tuples))",
                 "[bisect(accumulated_idxs, idx) for idx in range(len(flattened_tuples))]", "return (flattened_idx_reference, flattened_tuples)"):
        if need not in ftxt:
            raise Untranslatable(f"flatten_tuples changed: {need} not found")
    qtxt = "spatial_index_intersection(nodes_geoseries_sindex, geom_bounds(safe_buffer(point, snap_threshold * snap_threshold_error_multiplier * 10)))"
    C = {
        "flatten_tuples(nodes)": "(pyFlattenTuples nodes)",
        "set()": "[]",
        "gpd.GeoSeries(flattened_node_tuples)": "(pySeries flattened_node_tuples)",
        "flattened_nodes_geoseries.sindex": "()",
        "flattened_nodes_geoseries.loc[[idx_reference != idx for idx_reference in flattened_idx_reference]]":
            "(pyLocMask flattened_nodes_geoseries (List.map (fun idx_reference => idx_reference != idx) flattened_idx_reference))",
        qtxt: "(query point (snap_threshold * snap_threshold_error_multiplier * 10))",
        "set(other_nodes_geoseries.index.values)": "(List.map Prod.fst other_nodes_geoseries)",
        "flattened_idx_reference.index(idx)": "(List.idxOf idx flattened_idx_reference)",
        "other_nodes_geoseries.iloc[node_candidates_idx]": "(pyIloc other_nodes_geoseries node_candidates_idx)",
        "node_candidates.geometry.values": "(List.map Prod.snd node_candidates)",
        "intersecting_point.distance(point)": "(dist intersecting_point point)",
        "node_candidates.loc[intersection_data].index.to_list()": "(List.map Prod.fst (pyCompress node_candidates intersection_data))",
        "flattened_idx_reference[other_index]": "(flattened_idx_reference.getD other_index 0)",
    }
    T = {"flatten_tuples(nodes)": "(List Nat) × (List P)", "set()": "List Nat", "indexes_with_junctions": "List Nat",
         "gpd.GeoSeries(flattened_node_tuples)": "List (Nat × P)", "flattened_nodes_geoseries": "List (Nat × P)", "flattened_nodes_geoseries.sindex": "Unit",
         "nodes_geoseries_sindex": "Unit", "points": "List P", "associated_point_count": "Nat",
         "flattened_nodes_geoseries.loc[[idx_reference != idx for idx_reference in flattened_idx_reference]]": "List (Nat × P)", "other_nodes_geoseries": "List (Nat × P)",
         qtxt: "List Nat", "node_candidates_idx": "List Nat", "set(other_nodes_geoseries.index.values)": "List Nat", "remaining_idxs": "List Nat",
         "flattened_idx_reference.index(idx)": "Nat", "first_point_idx": "Nat", "val": "Nat",
         "other_nodes_geoseries.iloc[node_candidates_idx]": "List (Nat × P)", "node_candidates": "List (Nat × P)",
         "node_candidates.geometry.values": "List P", "intersecting_point.distance(point)": "Rat", "intersection_data": "List Bool",
         "node_candidates.loc[intersection_data].index.to_list()": "List Nat", "flattened_idx_reference[other_index]": "Nat", "other_index": "Nat",
         "flattened_idx_reference": "List Nat", "flattened_node_tuples": "List P"}
    # the two callers: V NODE on trace ends with threshold 1, MULTI JUNCTION on all nodes with threshold 2
    vt = ast.parse(S[TVALS])
    consts_out = ""
    for cname, fname, arg, lean in (("VNodeValidator", "determine_v_nodes", "endpoint_nodes", "vnode_error_threshold"),
                                    ("MultiJunctionValidator", "determine_faulty_junctions", "all_nodes", "junction_error_threshold")):
        f_ = find_func(vt, f"{cname}.{fname}")
        rets = [st for st in f_.body if isinstance(st, ast.Return)]
        if len(rets) != 1 or not isinstance(rets[0].value, ast.Call) or ast.unparse(rets[0].value.func) != "determine_node_junctions":
            raise Untranslatable(f"{cname}.{fname} is not a call of determine_node_junctions")
        kw = {k.arg: ast.unparse(k.value) for k in rets[0].value.keywords}
        if {k: v for k, v in kw.items() if k != "error_threshold"} != {"nodes": arg, "snap_threshold": "snap_threshold",
                                                                        "snap_threshold_error_multiplier": "snap_threshold_error_multiplier"}:
            raise Untranslatable(f"{cname}.{fname} passes {kw}")
        consts_out += f"def {lean} : Nat := {int(kw['error_threshold'])}\n"
    return consts_out + "\n" + translate_function(
        src, q, "determine_node_junctions",
        {"nodes": "List (List P)", "snap_threshold": "Rat", "snap_threshold_error_multiplier": "Rat", "error_threshold": "Nat"}, "List Nat", C, types=T,
        extra_params=[("{P}", "Type"), ("query", "P → Rat → List Nat"), ("dist", "P → P → Rat")],
        slice_from="if len(nodes) == 0", default_num="Rat", join="tuple", nat_sub=True)


def b_intersection_filter(S):
    """`determine_valid_intersection_points_no_vnode`: the four nested loops that drop the intersection points lying on a shared
    END of the trace and a candidate (those are V-nodes, judged from the ends). Geometry is a parameter."""
    C = {
        "determine_valid_intersection_points(trace_candidates.intersection(geom))": "inter0",
        "get_trace_endpoints(geom)": "(ends_of geom)",
        "[True] * len(inter)": "(List.replicate inter.length true)",
        "trace_candidates.geometry.values": "trace_candidates",
        "get_trace_endpoints(trace_candidate)": "(ends_of trace_candidate)",
        "np.isclose(ce.distance(ge), 0, atol=0.0001)": "(close ce ge)",
        "np.isclose(ge.distance(p), 0, atol=0.0001)": "(close ge p)",
        "p_to_keep[idx]": "(p_to_keep.getD idx true)",
        "list(compress(inter, selectors=p_to_keep))": "(pyCompress inter p_to_keep)",
    }
    T = {"determine_valid_intersection_points(trace_candidates.intersection(geom))": "List P", "inter": "List P", "get_trace_endpoints(geom)": "List P",
         "geom_endpoints": "List P", "[True] * len(inter)": "List Bool", "p_to_keep": "List Bool", "trace_candidates.geometry.values": "List L",
         "get_trace_endpoints(trace_candidate)": "List P", "candidate_endpoints": "List P", "np.isclose(ce.distance(ge), 0, atol=0.0001)": "Bool",
         "candidate_endpoint_is_close_to_geom_endpoint": "Bool", "np.isclose(ge.distance(p), 0, atol=0.0001)": "Bool", "p_to_keep[idx]": "Bool",
         "list(compress(inter, selectors=p_to_keep))": "List P", "inter_filtered": "List P"}
    return translate_function(
        S[GENERAL], "determine_valid_intersection_points_no_vnode", "intersection_points_no_vnode",
        {"trace_candidates": "List L", "geom": "L"}, "List P", C, types=T,
        extra_params=[("{L}", "Type"), ("{P}", "Type"), ("inter0", "List P"), ("ends_of", "L → List P"), ("close", "P → P → Bool")],
        slice_from="inter = determine_valid_intersection_points", default_num="Nat", join="tuple")


def b_general_nodes(S):
    """the loop of `determine_general_nodes`: per trace the candidates (bounding-box query, own index removed, LineStrings only), the
    intersection points that are not V-nodes (regenerated callee) and the end points that are not (within 1e-3 of) an intersection
    point; non-line rows get empty tuples"""
    src = S[GENERAL]
    q = "determine_general_nodes"
    C = {
        "traces.geometry.values": "geoms",
        "traces.sindex": "()",
        "not isinstance(geom, LineString) or geom.is_empty": "(!(is_line geom))",
        "()": "[]",
        "sorted(spatial_index_intersection(spatial_index, geom_bounds(geom))) if spatial_index is not None else [idx]": "(bboxq idx geom)",
        "traces.geometry.iloc[trace_candidates_idx]": "(List.filterMap (fun i => geoms[i]?) trace_candidates_idx)",
        "trace_candidates.loc[[isinstance(geom, LineString) for geom in trace_candidates.geometry.values]]": "(List.filter is_ls trace_candidates)",
        "determine_valid_intersection_points_no_vnode(trace_candidates, geom)": "(intersection_points_no_vnode (inter0 trace_candidates geom) ends_of close4 trace_candidates geom)",
        "tuple(intersection_geoms)": "intersection_geoms",
        "tuple((endpoint for endpoint in get_trace_endpoints(geom) if not any((np.isclose(endpoint.distance(intersection_geom), 0, atol=0.001) for intersection_geom in intersection_geoms if not intersection_geom.is_empty))))":
            "(List.filter (fun endpoint => !(List.any intersection_geoms (fun ig => close3 endpoint ig))) (ends_of geom))",
    }
    T = {"traces.geometry.values": "List G", "traces.sindex": "Unit", "spatial_index": "Unit", "not isinstance(geom, LineString) or geom.is_empty": "Bool", "()": "List P",
         "sorted(spatial_index_intersection(spatial_index, geom_bounds(geom))) if spatial_index is not None else [idx]": "List Nat",
         "trace_candidates_idx": "List Nat", "traces.geometry.iloc[trace_candidates_idx]": "List G", "trace_candidates": "List G",
         "trace_candidates.loc[[isinstance(geom, LineString) for geom in trace_candidates.geometry.values]]": "List G",
         "determine_valid_intersection_points_no_vnode(trace_candidates, geom)": "List P", "intersection_geoms": "List P", "tuple(intersection_geoms)": "List P",
         "endpoints": "List P", "intersect_nodes": "List (List P)", "endpoint_nodes": "List (List P)", "geom": "G",
         "tuple((endpoint for endpoint in get_trace_endpoints(geom) if not any((np.isclose(endpoint.distance(intersection_geom), 0, atol=0.001) for intersection_geom in intersection_geoms if not intersection_geom.is_empty))))": "List P"}
    return translate_function(
        src, q, "general_nodes", {"geoms": "List G"}, "List (List P) × List (List P)", C, types=T,
        extra_params=[("{G}", "Type"), ("{P}", "Type"), ("is_line", "G → Bool"), ("is_ls", "G → Bool"), ("bboxq", "Nat → G → List Nat"), ("inter0", "List G → G → List P"),
                      ("ends_of", "G → List P"), ("close4", "P → P → Bool"), ("close3", "P → P → Bool")],
        slice_from="intersect_nodes: List[Tuple[Point, ...]] = []", slice_to="return intersect_nodes, endpoint_nodes", returns_var="(intersect_nodes, endpoint_nodes)",
        default_num="Nat", join="tuple")


def b_junction_shift(S):
    src = S[GENERAL]
    tree = ast.parse(src)
    fn = find_func(tree, "determine_node_junctions")
    comps = [n for n in ast.walk(fn) if isinstance(n, ast.ListComp) and ast.unparse(n.generators[0].iter) == "node_candidates_idx"]
    if len(comps) != 1:
        raise Untranslatable("shift comprehension not found")
    c = comps[0]
    if len(c.generators[0].ifs) != 1 or ast.unparse(c.generators[0].ifs[0]) != "val in remaining_idxs":
        raise Untranslatable("shift comprehension filter changed")
    out = translate_expression(src, c.elt, "junction_shift", {"val": "Int", "first_point_idx": "Int", "associated_point_count": "Int"}, "Int", {}, default_num="Int")
    # first_point_idx is the first flattened position of the trace
    asg = [n for n in ast.walk(fn) if isinstance(n, ast.Assign) and ast.unparse(n.targets[0]) == "first_point_idx"]
    if len(asg) != 1 or ast.unparse(asg[0].value) != "flattened_idx_reference.index(idx)":
        raise Untranslatable("first_point_idx is not flattened_idx_reference.index(idx)")
    out += "\n/-- `first_point_idx = flattened_idx_reference.index(idx)` (shape-checked) -/\ndef first_point_idx_is_block_start : Bool := true\n"
    # distance test and thresholds
    hits = find_expressions(src, "determine_node_junctions", r"snap_threshold \* snap_threshold_error_multiplier( \* 10)?")
    texts = sorted({ast.unparse(h) for h in hits})
    if texts != ["snap_threshold * snap_threshold_error_multiplier", "snap_threshold * snap_threshold_error_multiplier * 10"]:
        raise Untranslatable(f"junction thresholds changed: {texts}")
    out += "\ndef junction_distance (snap_threshold : Rat) (snap_threshold_error_multiplier : Rat) : Rat :=\n  (snap_threshold * snap_threshold_error_multiplier)\n"
    out += "\ndef junction_window_margin (snap_threshold : Rat) (snap_threshold_error_multiplier : Rat) : Rat :=\n  ((snap_threshold * snap_threshold_error_multiplier) * (10 : Rat))\n"
    return out


ALL_MODULES = [GENERAL, BAN, PARAMS, NETWORK, AZIMUTH, SUBS, RSAMP, REL, GRID, TVAL, TVALS, TVU, PROX, CLI, LDIST, LINEDATA,
               "fractopo/analysis/anisotropy.py", "fractopo/analysis/multi_network.py", "fractopo/fractopo_utils.py"]


def b_cache_decorated(S):
    found = []
    for m in ALL_MODULES:
        tree = ast.parse(S[m])
        for n in ast.walk(tree):
            if isinstance(n, ast.FunctionDef):
                for d in n.decorator_list:
                    if ast.unparse(d).replace("general.", "") in ("JOBLIB_CACHE.cache", "JOBLIB_CACHE.cache()"):
                        found.append(f"{m.split('/')[-1][:-3]}.{n.name}")
    out = "def cache_decorated : List String := [" + ", ".join(f'"{x}"' for x in sorted(found)) + "]\n\n"
    # enable rule: Memory(location if <cond> else None)
    tree = ast.parse(S[GENERAL])
    asg = [st for st in tree.body if isinstance(st, ast.Assign) and ast.unparse(st.targets[0]) == "JOBLIB_CACHE"]
    if len(asg) != 1 or not isinstance(asg[0].value, ast.Call) or ast.unparse(asg[0].value.func) != "Memory":
        raise Untranslatable("JOBLIB_CACHE = Memory(...) not found")
    loc = asg[0].value.args[0]
    if not isinstance(loc, ast.IfExp) or ast.unparse(loc.orelse) != "None":
        raise Untranslatable("cache location is not `<path> if <cond> else None`")
    cond = ast.unparse(loc.test)
    if cond != "os.environ.get('FRACTOPO_DISABLE_CACHE') in (None, '0')":
        raise Untranslatable(f"cache enable condition changed: {cond}")
    out += "/-- the cache is enabled iff FRACTOPO_DISABLE_CACHE is unset or equal to \"0\" (shape-checked condition) -/\n"
    out += 'def cache_enabled (disable : Option String) : Bool :=\n  (List.elem disable [none, some "0"])\n'
    body = ast.unparse(loc.body)
    if body != "os.environ.get('FRACTOPO_CACHE_PATH', DEFAULT_FRACTOPO_CACHE_PATH)":
        raise Untranslatable(f"cache path expression changed: {body}")
    out += 'def cache_path_variable : String := "FRACTOPO_CACHE_PATH"\n'
    return out


def b_grid(S):
    src = S[GRID]
    tree = ast.parse(src)
    fn = find_func(tree, "create_grid")
    asg = {ast.unparse(st.targets[0]): st for st in fn.body if isinstance(st, ast.Assign) and len(st.targets) == 1}
    for need in ("rows", "cols", "cell_height", "x_left_origin", "x_right_origin", "y_top_origin", "y_bottom_origin"):
        if need not in asg:
            raise Untranslatable(f"create_grid: assignment to {need} not found")
    if ast.unparse(asg["cell_height"].value) != "cell_width":
        raise Untranslatable("cell_height is not cell_width (cells are no longer square)")
    P = {"x_min": "Rat", "y_min": "Rat", "x_max": "Rat", "y_max": "Rat", "cell_width": "Rat"}
    C = {"cell_height": "cell_width"}
    T = {"cell_height": "Rat"}
    out = translate_expression(src, asg["rows"].value, "grid_rows", P, "Int", C, types=T, default_num="Rat")
    out += "\n" + translate_expression(src, asg["cols"].value, "grid_cols", P, "Int", C, types=T, default_num="Rat")
    for nm in ("x_left_origin", "x_right_origin", "y_top_origin", "y_bottom_origin"):
        out += "\n" + translate_expression(src, asg[nm].value, "grid_" + nm, P, "Rat", C, types=T, default_num="Rat")
    # loop nest: columns outside, rows inside; per-step updates
    loops = [st for st in fn.body if isinstance(st, ast.For)]
    if len(loops) != 1 or ast.unparse(loops[0].iter) != "range(cols)":
        raise Untranslatable("outer loop is not `for _ in range(cols)`")
    inner = [st for st in loops[0].body if isinstance(st, ast.For)]
    if len(inner) != 1 or ast.unparse(inner[0].iter) != "range(rows)":
        raise Untranslatable("inner loop is not `for _ in range(rows)`")
    def upd(body, var):
        hits = [st for st in body if isinstance(st, ast.Assign) and ast.unparse(st.targets[0]) == var]
        return ast.unparse(hits[-1].value) if hits else None
    expect_outer = {"y_top": "y_top_origin", "y_bottom": "y_bottom_origin"}
    for v, e in expect_outer.items():
        first = [st for st in loops[0].body if isinstance(st, ast.Assign) and ast.unparse(st.targets[0]) == v]
        if not first or ast.unparse(first[0].value) != e:
            raise Untranslatable(f"column does not restart {v} at {e}")
    steps = {"y_top": upd(inner[0].body, "y_top"), "y_bottom": upd(inner[0].body, "y_bottom"),
             "x_left_origin": upd(loops[0].body, "x_left_origin"), "x_right_origin": upd(loops[0].body, "x_right_origin")}
    want = {"y_top": "y_top - cell_height", "y_bottom": "y_bottom - cell_height", "x_left_origin": "x_left_origin + cell_width", "x_right_origin": "x_right_origin + cell_width"}
    if steps != want:
        raise Untranslatable(f"grid stepping changed: {steps}")
    poly = [n for n in ast.walk(inner[0]) if isinstance(n, ast.Call) and ast.unparse(n.func) == "Polygon"]
    if len(poly) != 1 or ast.unparse(poly[0].args[0]) != "[(x_left_origin, y_top), (x_right_origin, y_top), (x_right_origin, y_bottom), (x_left_origin, y_bottom)]":
        raise Untranslatable("cell polygon corners changed")
    out += "\n/-- loop nest (shape-checked): columns outside, rows inside; a column restarts at the top; steps of one cell width -/\ndef grid_column_major : Bool := true\n"
    # sample circle radius
    pfn = find_func(tree, "populate_sample_cell")
    hits = find_expressions(src, "populate_sample_cell", r"np\.sqrt\(sample_cell_area\) \* [0-9.]+")
    if len(hits) != 1:
        raise Untranslatable("sample circle radius expression not found")
    out += "\n" + translate_expression(src, hits[0], "sample_radius", {"sample_cell_area": "Rat"}, "Rat", {"np.sqrt(sample_cell_area)": "(sqrt sample_cell_area)"},
                                        types={"np.sqrt(sample_cell_area)": "Rat"}, default_num="Rat").replace("def sample_radius (sample_cell_area : Rat)", "def sample_radius (sqrt : Rat → Rat) (sample_cell_area : Rat)")
    return out


def b_grid_loops(S):
    """whole `create_grid`: counts, origins and BOTH loops (columns outside, rows inside, a column restarts at the top) as executable code;
    a cell polygon is recorded by its (left, right, bottom, top)"""
    corners = "Polygon([(x_left_origin, y_top), (x_right_origin, y_top), (x_right_origin, y_bottom), (x_left_origin, y_bottom)])"
    C = {"lines.total_bounds": "(x_min0, y_min0, x_max0, y_max0)", corners: "(x_left_origin, x_right_origin, y_bottom, y_top)"}
    T = {"lines.total_bounds": "Rat × Rat × Rat × Rat", corners: "Rat × Rat × Rat × Rat", "polygons": "List (Rat × Rat × Rat × Rat)",
         "rows": "Int", "cols": "Int", "cell_height": "Rat", "x_left_origin": "Rat", "x_right_origin": "Rat", "y_top_origin": "Rat", "y_bottom_origin": "Rat",
         "y_top": "Rat", "y_bottom": "Rat"}
    return translate_function(
        S[GRID], "create_grid", "create_grid_cells", {"cell_width": "Rat"}, "List (Rat × Rat × Rat × Rat)", C, types=T,
        extra_params=[("x_min0", "Rat"), ("y_min0", "Rat"), ("x_max0", "Rat"), ("y_max0", "Rat")],
        slice_from="x_min, y_min, x_max, y_max = lines.total_bounds", slice_to="grid = gpd.GeoDataFrame", returns_var="polygons", default_num="Rat", join="tuple")


def _find_compare(source, qual, contains):
    tree = ast.parse(source)
    fn = find_func(tree, qual)
    hits = [n for n in ast.walk(fn) if isinstance(n, (ast.Compare, ast.BoolOp)) and all(c in ast.unparse(n) for c in contains)]
    # outermost matches only
    outer = [h for h in hits if not any(h is not o and h in list(ast.walk(o)) for o in hits)]
    if len(outer) != 1:
        raise Untranslatable(f"{qual}: expected one comparison containing {contains}, found {len(outer)}")
    return outer[0]


def b_windows(S):
    out = ""
    # UNDERLAPPING / OVERLAPPING SNAP window
    n = _find_compare(S[TVALS], "UnderlappingSnapValidator.validation_method", ["trace.distance(endpoint)", "snap_threshold_error_multiplier"])
    out += translate_expression(S[TVALS], n, "underlap_window", {"d": "Rat", "snap_threshold": "Rat", "snap_threshold_error_multiplier": "Rat"}, "Bool",
                                {"trace.distance(endpoint)": "d"}, types={"trace.distance(endpoint)": "Rat"}, default_num="Rat")
    n = _find_compare(S[TVALS], "UnderlappingSnapValidator.validation_method", ["trace_candidates.distance(endpoint)"])
    out += "\n" + translate_expression(S[TVALS], n, "well_snapped", {"d": "Rat", "snap_threshold": "Rat"}, "Bool",
                                        {"trace_candidates.distance(endpoint)": "d"}, types={"trace_candidates.distance(endpoint)": "Rat"}, default_num="Rat")
    # TRACE UNDERLAPS TARGET AREA window
    n = _find_compare(S[TVALS], "TargetAreaSnapValidator.validation_method", ["endpoint.distance(area_polygon.boundary)"])
    out += "\n" + translate_expression(S[TVALS], n, "area_window",
                                        {"d": "Rat", "snap_threshold": "Rat", "snap_threshold_error_multiplier": "Rat", "area_edge_snap_multiplier": "Rat"}, "Bool",
                                        {"endpoint.distance(area_polygon.boundary)": "d"}, types={"endpoint.distance(area_polygon.boundary)": "Rat"}, default_num="Rat")
    # snapping guard of snap_trace_to_another
    n = _find_compare(S[BAN], "snap_trace_to_another", ["ep.distance(another)", "ep.intersects(another)"])
    out += "\n" + translate_expression(S[BAN], n, "snap_guard", {"d": "Rat", "snap_threshold": "Rat", "on": "Bool"}, "Bool",
                                        {"ep.distance(another)": "d", "ep.intersects(another)": "on"},
                                        types={"ep.distance(another)": "Rat", "ep.intersects(another)": "Bool"}, default_num="Rat")
    # boundary proximity (E-node test / no insertion of boundary ends)
    n = _find_compare(S[BAN], "is_endpoint_close_to_boundary", ["endpoint.distance(area.boundary)"])
    out += "\n" + translate_expression(S[BAN], n, "boundary_close", {"d": "Rat", "snap_threshold": "Rat"}, "Bool",
                                        {"endpoint.distance(area.boundary)": "d"}, types={"endpoint.distance(area.boundary)": "Rat"}, default_num="Rat")
    n = _find_compare(S[BAN], "node_identity", ["endpoint.distance(area.boundary)"])
    out += "\n" + translate_expression(S[BAN], n, "node_boundary_close", {"d": "Rat", "snap_threshold": "Rat"}, "Bool",
                                        {"endpoint.distance(area.boundary)": "d"}, types={"endpoint.distance(area.boundary)": "Rat"}, default_num="Rat")
    n = _find_compare(S[BAN], "node_identity", ["candidate.distance(endpoint)"])
    out += "\n" + translate_expression(S[BAN], n, "node_coincident", {"d": "Rat", "snap_threshold": "Rat"}, "Bool",
                                        {"candidate.distance(endpoint)": "d"}, types={"candidate.distance(endpoint)": "Rat"}, default_num="Rat")
    return out


def b_error_column(S):
    """`Validation.ERROR_COLUMN` and the name under which a Shapefile (dBase field names keep 10 characters) carries it, `ERROR_COLUMN_TRUNC`;
    run_validation drops both from the input before validating. Strings are lists of characters."""
    tree = ast.parse(S[TVAL])
    asg = [n for n in ast.walk(tree) if isinstance(n, ast.Assign) and len(n.targets) == 1 and ast.unparse(n.targets[0]) == "self.ERROR_COLUMN_TRUNC"]
    if len(asg) != 1:
        raise Untranslatable("assignment of self.ERROR_COLUMN_TRUNC not found (exactly once)")
    consts = [n for n in ast.walk(tree) if isinstance(n, ast.AnnAssign) and ast.unparse(n.target) == "ERROR_COLUMN" and isinstance(n.value, ast.Constant) and isinstance(n.value.value, str)]
    if len(consts) != 1:
        raise Untranslatable("class attribute ERROR_COLUMN: str = <literal> not found")
    name = consts[0].value.value
    if not name.isascii() or '"' in name or "\\" in name:
        raise Untranslatable("ERROR_COLUMN literal is not plain ASCII")

    def num(e):
        if isinstance(e, ast.Constant) and isinstance(e.value, int) and not isinstance(e.value, bool) and e.value >= 0:
            return str(e.value)
        if isinstance(e, ast.Call) and ast.unparse(e.func) == "len" and len(e.args) == 1:
            return f"({val(e.args[0])}).length"
        raise Untranslatable(f"unsupported index expression {ast.unparse(e)} (negative or computed bounds)")

    def cond(e):
        ops = {ast.Gt: ">", ast.GtE: "≥", ast.Lt: "<", ast.LtE: "≤", ast.Eq: "="}
        if isinstance(e, ast.Compare) and len(e.ops) == 1 and type(e.ops[0]) in ops:
            return f"(decide ({num(e.left)} {ops[type(e.ops[0])]} {num(e.comparators[0])}))"
        raise Untranslatable(f"unsupported condition {ast.unparse(e)}")

    def val(e):
        if ast.unparse(e) == "self.ERROR_COLUMN":
            return "col"
        if isinstance(e, ast.IfExp):
            return f"(if {cond(e.test)} then {val(e.body)} else {val(e.orelse)})"
        if isinstance(e, ast.Subscript) and isinstance(e.slice, ast.Slice) and e.slice.step is None:
            lo = num(e.slice.lower) if e.slice.lower is not None else "0"
            hi = num(e.slice.upper) if e.slice.upper is not None else f"({val(e.value)}).length"
            return f"(pySliceL {val(e.value)} {lo} {hi})"
        raise Untranslatable(f"unsupported string expression {ast.unparse(e)}")

    out = f'def error_column : List Char := "{name}".toList\n\n'
    out += f"/-- `{' '.join(ast.unparse(asg[0].value).split())}` -/\ndef error_column_trunc (col : List Char) : List Char :=\n  {val(asg[0].value)}\n"
    # the stale columns dropped at the head of run_validation are exactly these two names
    fns = [n for n in ast.walk(tree) if isinstance(n, ast.FunctionDef) and n.name == "run_validation"]
    if len(fns) != 1:
        raise Untranslatable("method run_validation not found")
    loops = [n for n in ast.walk(fns[0]) if isinstance(n, ast.For) and ast.unparse(n.target) == "err_col"]
    if len(loops) != 1 or ast.unparse(loops[0].iter) != "(self.ERROR_COLUMN, self.ERROR_COLUMN_TRUNC)":
        raise Untranslatable("run_validation does not drop exactly (self.ERROR_COLUMN, self.ERROR_COLUMN_TRUNC) from the input")
    out += "\n/-- the columns run_validation drops from its input before validating (shape-checked loop) -/\ndef stale_columns (col : List Char) : List (List Char) := [col, error_column_trunc col]\n"
    return out


def b_cli(S):
    tree = ast.parse(S[CLI])

    def option_defaults(fname):
        fn = find_func(tree, fname)
        out = {}
        args = fn.args.args
        defaults = fn.args.defaults
        for a, d in zip(args[-len(defaults):], defaults):
            if isinstance(d, ast.Call) and ast.unparse(d.func) in ("typer.Option", "typer.Argument") and d.args:
                out[a.arg] = ast.unparse(d.args[0])
        return fn, out

    fn, tv = option_defaults("tracevalidate")
    _, nw = option_defaults("network")
    need_tv = ["allow_fix", "summary", "snap_threshold", "output", "only_area_validation", "allow_empty_area"]
    need_nw = ["snap_threshold", "determine_branches_nodes", "name", "circular_target_area", "truncate_traces"]
    for n in need_tv:
        if n not in tv:
            raise Untranslatable(f"tracevalidate option {n} not found")
    for n in need_nw:
        if n not in nw:
            raise Untranslatable(f"network option {n} not found")
    out = "def tracevalidate_defaults : List (String × String) := [" + ", ".join(f'("{n}", "{tv[n]}")' for n in need_tv) + "]\n"
    out += "def network_defaults : List (String × String) := [" + ", ".join(f'("{n}", "{nw[n]}")' for n in need_nw) + "]\n"
    # only_area_validation -> choose_validators
    ifs = [n for n in ast.walk(fn) if isinstance(n, ast.If) and ast.unparse(n.test) == "only_area_validation"]
    if len(ifs) != 1:
        raise Untranslatable("only_area_validation branch not found")
    body_asg = [st for st in ifs[0].body if isinstance(st, (ast.Assign, ast.AnnAssign))]
    else_asg = [st for st in ifs[0].orelse if isinstance(st, (ast.Assign, ast.AnnAssign))]
    if len(body_asg) != 1 or len(else_asg) != 1 or ast.unparse(body_asg[0].value) != "(TargetAreaSnapValidator,)" or ast.unparse(else_asg[0].value) != "None":
        raise Untranslatable("only_area_validation does not choose exactly (TargetAreaSnapValidator,) / None")
    out += 'def only_area_validators : List String := ["TargetAreaSnapValidator"]\n'
    # what is passed on to the library
    calls = [n for n in ast.walk(fn) if isinstance(n, ast.Call) and ast.unparse(n.func) == "Validation"]
    if len(calls) != 1 or [ast.unparse(a) for a in calls[0].args] != ["traces", "areas", "trace_file.stem", "allow_fix"] or {k.arg: ast.unparse(k.value) for k in calls[0].keywords} != {"SNAP_THRESHOLD": "snap_threshold"}:
        raise Untranslatable("Validation(...) call of tracevalidate changed")
    runs = [n for n in ast.walk(fn) if isinstance(n, ast.Call) and ast.unparse(n.func) == "validation.run_validation"]
    if len(runs) != 1 or {k.arg: ast.unparse(k.value) for k in runs[0].keywords} != {"choose_validators": "choose_validators", "allow_empty_area": "allow_empty_area"}:
        raise Untranslatable("run_validation(...) call of tracevalidate changed")
    out += "def tracevalidate_passes_options_through : Bool := true\n"
    # the only deletion: output_path.unlink() guarded by output_path.exists()
    unl = [n for n in ast.walk(fn) if isinstance(n, ast.Call) and isinstance(n.func, ast.Attribute) and n.func.attr in ("unlink", "rmtree", "remove", "rmdir")]
    if len(unl) != 1 or ast.unparse(unl[0]) != "output_path.unlink()":
        raise Untranslatable(f"tracevalidate deletes something else than output_path: {[ast.unparse(u) for u in unl]}")
    guard = [n for n in ast.walk(fn) if isinstance(n, ast.If) and ast.unparse(n.test) == "output_path.exists()" and any(unl[0] in list(ast.walk(b)) for b in n.body)]
    if len(guard) != 1:
        raise Untranslatable("unlink is not guarded by output_path.exists()")
    out += 'def tracevalidate_deletes : List String := ["output_path"]\n'
    # network: Network(...) keyword plumbing
    nfn = find_func(tree, "network")
    ncalls = [n for n in ast.walk(nfn) if isinstance(n, ast.Call) and ast.unparse(n.func) == "Network"]
    if len(ncalls) != 1:
        raise Untranslatable("Network(...) call of the network command not found")
    kws = {k.arg: ast.unparse(k.value) for k in ncalls[0].keywords}
    want = {"trace_gdf": "traces", "area_gdf": "areas", "snap_threshold": "snap_threshold", "determine_branches_nodes": "determine_branches_nodes",
            "name": "network_name", "circular_target_area": "circular_target_area", "truncate_traces": "truncate_traces"}
    for k, v in want.items():
        if kws.get(k) != v:
            raise Untranslatable(f"network command passes {k}={kws.get(k)} (expected {v})")
    out += "def network_passes_options_through : Bool := true\n"
    return out


ITEMS: List[Item] = [
    Item("BranchIdentity", BAN, ["C05", "C01"], b_branch_identity, extra_modules=[GENERAL]),
    Item("DegreeToClass", BAN, ["C05", "C01"], b_degree_to_class, extra_modules=[GENERAL]),
    Item("LengthFilters", BAN, ["C01", "C04"], b_length_filters),
    Item("NodeIdentity", BAN, ["C05", "C01"], b_node_identity, extra_modules=[GENERAL]),
    Item("BranchIdentities", BAN, ["C05", "C01"], b_branch_identities, deps=["BranchIdentity"], extra_modules=[GENERAL]),
    Item("SnapConstants", BAN, ["C01", "C03", "C06", "C16"], b_snap_constants),
    Item("SnapInsert", BAN, ["C06"], b_snap_insert),
    Item("InsertPoint", BAN, ["C06", "C04", "C01"], b_insert_point),
    Item("Dedupe", BAN, ["C04", "C01", "C14"], b_dedupe),
    Item("NetworkInit", NETWORK, ["C14", "C08", "C15", "C12"], b_network_init),
    Item("BranchesAndNodes", BAN, ["C01", "C14", "C04", "C03", "C05"], b_branches_and_nodes),
    Item("SimpleSnap", BAN, ["C06", "C01"], b_simple_snap),
    Item("SnapStage", BAN, ["C06", "C01"], b_snap_stage, deps=["SnapInsert"]),
    Item("SnapDriver", BAN, ["C06", "C03"], b_snap_driver),
    Item("BoundaryWeight", GENERAL, ["C08"], b_boundary_weight),
    Item("BranchBoundary", PARAMS, ["C08"], b_branch_boundary, extra_modules=[GENERAL, NETWORK]),
    Item("BoundaryLines", GENERAL, ["C08", "C16"], b_boundary_lines),
    Item("CropHelpers", GENERAL, ["C07", "C09", "C16"], b_crop_helpers),
    Item("ParamTable", GENERAL, ["C08", "C20"], b_param_table),
    Item("TopologyParameters", PARAMS, ["C08", "C11"], b_topology_parameters, deps=["ParamTable"], extra_modules=[GENERAL]),
    Item("IsSet", GENERAL, ["C15"], b_is_set),
    Item("DetermineSet", GENERAL, ["C15"], b_determine_set, deps=["IsSet"]),
    Item("AzimuthPost", GENERAL, ["C15"], b_azimuth_post),
    Item("IsAzimuthClose", GENERAL, ["C15"], b_is_azimuth_close),
    Item("DefaultAzimuthSets", NETWORK, ["C15"], b_default_azimuth_sets),
    Item("CalcBins", AZIMUTH, ["C15"], b_calc_bins),
    Item("AzimuthBins", AZIMUTH, ["C15"], b_azimuth_bins, deps=["CalcBins"]),
    Item("JunctionShift", GENERAL, ["C02", "C16"], b_junction_shift),
    Item("NodeJunctions", GENERAL, ["C02", "C10"], b_node_junctions, extra_modules=[TVALS]),
    Item("IntersectionFilter", GENERAL, ["C02", "C11", "C03"], b_intersection_filter),
    Item("GeneralNodes", GENERAL, ["C02", "C11", "C03"], b_general_nodes, deps=["IntersectionFilter"]),
    Item("ValidatorTable", TVALS, ["C09", "C13", "C02"], b_validator_table, extra_modules=[TVAL]),
    Item("ValidateStep", TVAL, ["C09", "C13"], b_validate_step),
    Item("ValidationPass", TVAL, ["C09", "C13"], b_validation_pass),
    Item("RunValidation", TVAL, ["C09", "C13"], b_run_validation),
    Item("UnderlapValidator", TVALS, ["C10", "C13", "C11"], b_underlap_validator),
    Item("ValidationUtils", TVU, ["C10", "C16", "C02"], b_validation_utils),
    Item("SharpCorners", TVALS, ["C10"], b_sharp_corners),
    Item("ValidatorMethods", TVALS, ["C10", "C02"], b_validator_methods),
    Item("Stacking", TVU, ["C10"], b_stacking, extra_modules=[GENERAL]),
    Item("AreaValidator", TVALS, ["C10"], b_area_validator),
    Item("ValidationDefaults", TVAL, ["C10", "C03", "C16"], b_validation_defaults),
    Item("CacheDecorated", GENERAL, ["C17"], b_cache_decorated, extra_modules=[m for m in ALL_MODULES if m != GENERAL]),
    Item("Grid", GRID, ["C18"], b_grid),
    Item("GridLoops", GRID, ["C18"], b_grid_loops),
    Item("GridSampling", GRID, ["C18", "C17"], b_grid_sampling),
    Item("IndexMargins", GENERAL, ["C16"], b_index_margins, extra_modules=[PROX]),
    Item("CropPipeline", GENERAL, ["C07", "C04", "C14", "C18"], b_crop_pipeline, deps=["CropHelpers"]),
    Item("LineDataCache", LINEDATA, ["C08", "C15", "C11"], b_line_data, extra_modules=[GENERAL]),
    Item("ZCoordinates", GENERAL, ["C03", "C07", "C09", "C11", "C01", "C04", "C02"], b_z_coordinates),
    Item("ValidationCaches", TVAL, ["C02", "C13"], b_validation_caches),
    Item("SampleCell", GRID, ["C18"], b_sample_cell),
    Item("UnitVectorCompare", GENERAL, ["C10"], b_unit_vector_compare),
    Item("Cli", CLI, ["C19"], b_cli),
    Item("ErrorColumn", TVAL, ["C19", "C13"], b_error_column),
    Item("DetermineIntersect", REL, ["C12"], b_determine_intersect),
    Item("IntersectsLoop", REL, ["C12"], b_intersects_loop),
    Item("RelationshipLoop", REL, ["C12"], b_relationship_loop, extra_modules=[GENERAL]),
    Item("Windows", TVALS, ["C10", "C03", "C06"], b_windows, extra_modules=[BAN]),
    Item("RandomRadius", RSAMP, ["C20"], b_random_radius, extra_modules=[GENERAL]),
    Item("AggregateDispatch", SUBS, ["C20"], b_aggregate_dispatch),
    Item("GeoReader", GENERAL, ["C19"], b_geo_reader),
    Item("RandomSample", RSAMP, ["C20"], b_random_sample),
    Item("Subsampling", SUBS, ["C20"], b_subsampling, deps=["ParamTable"], extra_modules=[GENERAL]),
]
